---------------------------- MODULE OrderedStore ----------------------------
(* One SOP B-tree (btree.Btree, /repo/btree/btree.go) seen through its public API:
   an ordered multiset (map, for unique stores) of items with a cursor.

   items    in-order contents: sequence of [k |-> key, id |-> item id, v |-> value], sorted by Ord(k).
            A new item is placed in FRONT of the items with an equal key (node.add / getIndexToInsertTo
            descend with a lower-bound search at every level, rotations, splits and the nil-child repairs
            keep the in-order sequence).
   cur      cursor (currentItemRef) as an index into items; 0 = no item under the cursor
   off      cur = 0 because currentItemRef designates a slot that holds no item any more
            (slot index >= node.Count after a split), as opposed to the nil reference
   fetched  btree.currentItem (the cached *Item) is populated; GetCurrentKey() reads only the cache
   nid      number of items ever added = id of the newest item (ids are normalised by order of creation)
   unique   StoreInfo.IsUnique;  gran: keys a, b compare equal iff a \div gran = b \div gran
            (gran = 1: plain int keys, default comparer; gran = 10: custom comparer, used for key updates)

   Every public call is one action; its result parameter r is the value the call returned
   ("true" / "false" / "error" = (false, err) / "panic"), which the action constrains.
   Where the result depends on the tree shape, which this model does not have, the action is
   nondeterministic and says so:
     * which of several equal keys Find(k, false) / Update / UpdateKey / Remove / a refused
       AddIfNotExist lands on            (the first match met while descending),
     * where the cursor stops on a miss  (successor if it is in the node where the descent ended,
                                          else the predecessor),
     * what the cursor designates after a successful Add when it was set
       (same node id and slot index as before; the slots moved underneath it).
   Such choices can be narrowed by observation parameters (c, a; -2 = not observed, see Pick).
   Deviations of the code from the intended behaviour are separate disjuncts guarded by CONSTANTS
   (finding actions): AllowD1 (operator D1), AllowD2 (operator KeyGuard).  With both FALSE the
   specification is the intended behaviour; /repo's defects D3, D4 (load balancing breaks the key order)
   have no finding action: no ordered collection describes the state they leave behind.             *)
EXTENDS Integers, Sequences, FiniteSets, TLC

CONSTANTS AllowD1,   \* Find(k,false) short cut trusts a cursor whose slot was vacated: a zero key "is found"
          AllowD2,   \* UpdateCurrentKey/UpdateCurrentItem with an order-changing key and an empty item cache panics
          Keys, Vals, Grans, MaxItems, MaxAdds     \* bounds of the exhaustive / simulation configurations only

VARIABLES unique, gran, items, cur, off, fetched, nid

vars == <<unique, gran, items, cur, off, fetched, nid>>

B(b) == IF b THEN "true" ELSE "false"

Ord(k)        == k \div gran
SameOrd(a, b) == Ord(a) = Ord(b)
N             == Len(items)

Less(k)   == Cardinality({i \in 1..N : Ord(items[i].k) < Ord(k)})
LessEq(k) == Cardinality({i \in 1..N : Ord(items[i].k) <= Ord(k)})
Has(k)    == Less(k) < LessEq(k)
FirstOf(k) == Less(k) + 1
LastOf(k)  == LessEq(k)
EqIdx(k)   == FirstOf(k)..LastOf(k)
\* cursor after a miss: the in-order predecessor or successor of the key, whichever exist
MissPos(k) == {Less(k), Less(k) + 1} \cap (1..N)

InsertAt(s, p, e) == SubSeq(s, 1, p - 1) \o <<e>> \o SubSeq(s, p, Len(s))
RemoveAt(s, p)    == SubSeq(s, 1, p - 1) \o SubSeq(s, p + 1, Len(s))

Nil        == cur = 0 /\ ~off
SetNil     == cur' = 0 /\ off' = FALSE /\ fetched' = FALSE
SetAt(j)   == cur' = j /\ off' = FALSE /\ fetched' = TRUE
KeepCursor == UNCHANGED <<cur, off, fetched>>
Frame      == UNCHANGED <<unique, gran>>

\* what GetCurrentKey() shows (key, id): the cached item, else the zero item
CurView == IF cur # 0 /\ fetched THEN <<items[cur].k, items[cur].id>> ELSE <<0, 0>>
\* id of the item currentItemRef designates; 0: nil reference; -1: vacated slot
TrueCur == IF cur # 0 THEN items[cur].id ELSE IF off THEN -1 ELSE 0

-----------------------------------------------------------------------------
(* Nondeterministic choices are narrowed by what was observed, when something was observed:
   c = id of the item currentItemRef designates after the call (0: nil reference, -1: vacated slot),
   a = id of the item the call changed / removed;   -2 = not observed (the design model passes -2).   *)
PosOf(s, id)  == IF \E i \in 1..Len(s) : s[i].id = id THEN CHOOSE i \in 1..Len(s) : s[i].id = id ELSE 0
Pick(S, s, id) == IF id = -2 THEN S ELSE S \cap {PosOf(s, id)}

(* Add / AddIfNotExist *)
AddCore(k, v, r, u, c) ==
  /\ Frame
  /\ IF u /\ Has(k)
     THEN /\ r = "false"
          /\ \E j \in Pick(EqIdx(k), items, c) : cur' = j   \* cursor left on the existing item, cache emptied
          /\ off' = FALSE /\ fetched' = FALSE
          /\ UNCHANGED <<items, nid>>
     ELSE /\ r = "true"
          /\ items' = InsertAt(items, Less(k) + 1, [k |-> k, id |-> nid + 1, v |-> v])
          /\ nid' = nid + 1
          /\ IF Nil THEN KeepCursor
             ELSE /\ \E p \in Pick(0..Len(items'), items', c) : cur' = p   \* same (node, slot) as before,
                  /\ off' = (cur' = 0)                                      \* whatever is there now
                  /\ UNCHANGED fetched

Add(k, v, r, c)           == AddCore(k, v, r, unique, c)
AddIfNotExist(k, v, r, c) == AddCore(k, v, r, TRUE, c)

(* Find(k, false): also the first step of Update, UpdateKey, Remove.
   kind "hit": found, S = the positions the cursor may end on; "miss"; "empty": nothing happens. *)
FindFalse(k) ==
  IF N = 0 THEN [kind |-> "empty", S |-> {0}]
  ELSE IF cur # 0 /\ SameOrd(items[cur].k, k) THEN [kind |-> "hit", S |-> {cur}]   \* short cut: cursor already on k
  ELSE IF Has(k) THEN [kind |-> "hit", S |-> EqIdx(k)]
  ELSE [kind |-> "miss", S |-> MissPos(k)]
\* finding D1: the short cut compares k with the zero key of a vacated slot
D1(k) == AllowD1 /\ N # 0 /\ off /\ SameOrd(0, k)
D1Cursor == fetched' = TRUE /\ UNCHANGED <<cur, off>>

Find(k, first, r, c) ==
  /\ Frame /\ UNCHANGED <<items, nid>>
  /\ IF first
     THEN IF N = 0 THEN r = "false" /\ KeepCursor
          ELSE IF Has(k) THEN r = "true" /\ SetAt(FirstOf(k))
          ELSE r = "false" /\ \E j \in Pick(MissPos(k), items, c) : SetAt(j)
     ELSE \/ D1(k) /\ r = "true" /\ D1Cursor
          \/ LET f == FindFalse(k) IN
             /\ r = B(f.kind = "hit")
             /\ IF f.kind = "empty" THEN KeepCursor ELSE \E j \in Pick(f.S, items, c) : SetAt(j)

FindInDescendingOrder(k, r, c) ==
  /\ Frame /\ UNCHANGED <<items, nid>>
  /\ IF N = 0 THEN r = "false" /\ KeepCursor
     ELSE IF Has(k) THEN r = "true" /\ SetAt(LastOf(k))
     ELSE r = "false" /\ \E j \in Pick(MissPos(k), items, c) : SetAt(j)

\* Find(k, true), then Next until the id shows up (the walk does not stop where the key changes)
FindWithID(k, id, r, c) ==
  /\ Frame /\ UNCHANGED <<items, nid>>
  /\ IF N = 0 THEN r = "false" /\ KeepCursor
     ELSE IF ~Has(k) THEN r = "false" /\ \E j \in Pick(MissPos(k), items, c) : SetAt(j)
     ELSE LET S == {j \in FirstOf(k)..N : items[j].id = id} IN
          IF S # {} THEN r = "true" /\ \E j \in S : SetAt(j)
          ELSE r = "false" /\ SetNil

First(r) ==
  /\ Frame /\ UNCHANGED <<items, nid>>
  /\ IF N = 0 THEN r = "false" /\ KeepCursor ELSE r = "true" /\ SetAt(1)

Last(r) ==
  /\ Frame /\ UNCHANGED <<items, nid>>
  /\ IF N = 0 THEN r = "false" /\ KeepCursor ELSE r = "true" /\ SetAt(N)

Next(r) ==
  /\ Frame /\ UNCHANGED <<items, nid>>
  /\ IF cur = 0 THEN r = "false" /\ KeepCursor
     ELSE IF cur < N THEN r = "true" /\ SetAt(cur + 1)
     ELSE r = "false" /\ SetNil

Previous(r) ==
  /\ Frame /\ UNCHANGED <<items, nid>>
  /\ IF cur = 0 THEN r = "false" /\ KeepCursor
     ELSE IF cur > 1 THEN r = "true" /\ SetAt(cur - 1)
     ELSE r = "false" /\ SetNil

GetCurrentValue(rv) ==
  /\ Frame /\ UNCHANGED <<items, nid, cur, off>>
  /\ rv = (IF cur # 0 THEN items[cur].v ELSE "")
  /\ fetched' = ~Nil

GetCurrentItem(rk, rid, rv) ==
  /\ Frame /\ UNCHANGED <<items, nid, cur, off>>
  /\ <<rk, rid, rv>> = (IF cur # 0 THEN <<items[cur].k, items[cur].id, items[cur].v>> ELSE <<0, 0, "">>)
  /\ fetched' = ~Nil

(* updates *)
Update(k, v, r, c) ==
  /\ Frame /\ UNCHANGED nid
  /\ \/ D1(k) /\ r = "false" /\ D1Cursor /\ UNCHANGED items      \* "found", then UpdateCurrentItem refuses the vacated slot
     \/ LET f == FindFalse(k) IN
        /\ r = B(f.kind = "hit")
        /\ IF f.kind = "empty" THEN KeepCursor /\ UNCHANGED items
           ELSE \E j \in Pick(f.S, items, c) :
                   /\ SetAt(j)
                   /\ IF f.kind = "hit" THEN items' = [items EXCEPT ![j] = [k |-> k, id |-> @.id, v |-> v]]
                                        ELSE UNCHANGED items

UpdateKey(k, r, c) ==
  /\ Frame /\ UNCHANGED nid
  /\ \/ D1(k) /\ r = "false" /\ D1Cursor /\ UNCHANGED items
     \/ LET f == FindFalse(k) IN
        /\ r = B(f.kind = "hit")
        /\ IF f.kind = "empty" THEN KeepCursor /\ UNCHANGED items
           ELSE \E j \in Pick(f.S, items, c) :
                   /\ SetAt(j)
                   /\ IF f.kind = "hit" THEN items' = [items EXCEPT ![j].k = k] ELSE UNCHANGED items

\* the key-order guard: a key that compares differently from the current item's key is refused
KeyGuard(k, r) ==
  \/ r = "error"
  \/ AllowD2 /\ ~fetched /\ r = "panic"                                                   \* finding D2

UpdateCurrentKey(k, r) ==
  /\ Frame /\ UNCHANGED nid /\ KeepCursor
  /\ IF cur = 0 THEN r = "false" /\ UNCHANGED items
     ELSE IF ~SameOrd(items[cur].k, k) THEN KeyGuard(k, r) /\ UNCHANGED items
     ELSE r = "true" /\ items' = [items EXCEPT ![cur].k = k]

UpdateCurrentItem(k, v, r) ==
  /\ Frame /\ UNCHANGED nid /\ KeepCursor
  /\ IF cur = 0 THEN r = "false" /\ UNCHANGED items
     ELSE IF ~SameOrd(items[cur].k, k) THEN KeyGuard(k, r) /\ UNCHANGED items
     ELSE r = "true" /\ items' = [items EXCEPT ![cur] = [k |-> k, id |-> @.id, v |-> v]]

UpdateCurrentValue(v, r) ==
  /\ Frame /\ UNCHANGED nid /\ KeepCursor
  /\ IF cur = 0 THEN r = "false" /\ UNCHANGED items
     ELSE r = "true" /\ items' = [items EXCEPT ![cur].v = v]

\* AddIfNotExist, and when refused: Update (whose Find(k,false) short cut keeps the cursor where the refusal left it)
Upsert(k, v, r, c) ==
  /\ r = "true"
  /\ IF Has(k)
     THEN /\ Frame /\ UNCHANGED nid
          /\ \E j \in Pick(EqIdx(k), items, c) : /\ items' = [items EXCEPT ![j] = [k |-> k, id |-> @.id, v |-> v]]
                                                 /\ SetAt(j)
     ELSE AddCore(k, v, "true", TRUE, c)

(* removals *)
Remove(k, r, a, c) ==
  /\ Frame /\ UNCHANGED nid
  /\ \/ D1(k) /\ r = "false" /\ D1Cursor /\ UNCHANGED items      \* "found", then RemoveCurrentItem refuses the vacated slot
     \/ LET f == FindFalse(k) IN
        /\ r = B(f.kind = "hit")
        /\ CASE f.kind = "empty" -> KeepCursor /\ UNCHANGED items
             [] f.kind = "miss"  -> UNCHANGED items /\ \E j \in Pick(f.S, items, c) : SetAt(j)
             [] f.kind = "hit"   -> SetNil /\ \E j \in Pick(f.S, items, a) : items' = RemoveAt(items, j)

RemoveCurrentItem(r) ==
  /\ Frame /\ UNCHANGED nid
  /\ IF cur = 0 THEN r = "false" /\ UNCHANGED items /\ KeepCursor
     ELSE r = "true" /\ items' = RemoveAt(items, cur) /\ SetNil

(* whole-store scans through the API: First, (GetCurrentItem, Next)*  /  Last, (GetCurrentItem, Previous)* *)
Reverse(s) == [i \in 1..Len(s) |-> s[Len(s) + 1 - i]]

ScanFwd(seq) ==
  /\ Frame /\ UNCHANGED <<items, nid>>
  /\ seq = items
  /\ IF N = 0 THEN KeepCursor ELSE SetNil

ScanBwd(seq) ==
  /\ Frame /\ UNCHANGED <<items, nid>>
  /\ seq = Reverse(items)
  /\ IF N = 0 THEN KeepCursor ELSE SetNil

(* inmemory.Range(from, to) / RangeDesc(from, to)  (/repo/inmemory/iterate.go), plain keys only *)
KV(i) == [k |-> items[i].k, v |-> items[i].v]
Max(a, b) == IF a > b THEN a ELSE b
Min(a, b) == IF a < b THEN a ELSE b

AscS(from)     == Less(from) + 1                       \* first index with key >= from (N+1: none)
AscE(from, to) == Max(AscS(from), LessEq(to) + 1)      \* first index >= AscS with key > to (N+1: none)
DescS(from)     == LessEq(from)                        \* last index with key <= from (0: none)
DescE(from, to) == Min(DescS(from), Less(to))          \* last index <= DescS with key < to (0: none)

RangeAsc(from, to, seq) ==
  /\ gran = 1
  /\ Frame /\ UNCHANGED <<items, nid>>
  /\ LET s == AscS(from)  e == AscE(from, to) IN
     /\ seq = [i \in 1..(e - s) |-> KV(s + i - 1)]
     /\ IF N = 0 THEN KeepCursor
        ELSE IF e <= N THEN SetAt(e) ELSE SetNil

RangeDesc(from, to, seq) ==
  /\ gran = 1
  /\ Frame /\ UNCHANGED <<items, nid>>
  /\ LET s == DescS(from)  e == DescE(from, to) IN
     /\ seq = [i \in 1..(s - e) |-> KV(s - i + 1)]
     /\ IF N = 0 THEN KeepCursor
        ELSE IF e >= 1 THEN SetAt(e) ELSE SetNil

(* observation that does not go through the cursor: in-order walk of the node repository, Count(),
   structural sanity (parent ids, counts, child slots) established by the walker *)
Observe(seq, cnt, sane) ==
  /\ seq = items /\ cnt = N /\ sane = TRUE
  /\ UNCHANGED vars

-----------------------------------------------------------------------------
(* invariants *)
Sorted      == \A i \in 1..(N - 1) : Ord(items[i].k) <= Ord(items[i + 1].k)
UniqueOK    == unique => \A i \in 1..(N - 1) : Ord(items[i].k) < Ord(items[i + 1].k)
IdsDistinct == Cardinality({items[i].id : i \in 1..N}) = N
CursorOK    == /\ cur \in 0..N /\ (off => cur = 0) /\ (N = 0 => Nil) /\ (Nil => ~fetched)
               /\ nid >= N

(* C18 at the design level: the iterator algorithms of iterate.go, run on the model from EVERY position
   a Find / FindInDescendingOrder may leave the cursor at, visit exactly the requested key range. *)
InRange(from, to) == SelectSeq(items, LAMBDA it : it.k >= from /\ it.k <= to)

AscStarts(from)  == IF Has(from) THEN {FirstOf(from)} ELSE MissPos(from)
DescStarts(from) == IF Has(from) THEN {LastOf(from)} ELSE MissPos(from)

\* "for compare(cur, from) < 0 { if !Next() return }"  then  "for { if k > to return; yield; if !Next() return }"
AscAlgo(c, from, to) ==
  LET s == CHOOSE j \in c..(N + 1) : /\ (j <= N => items[j].k >= from)
                                     /\ \A i \in c..(j - 1) : items[i].k < from
      e == CHOOSE j \in s..(N + 1) : /\ (j <= N => items[j].k > to)
                                     /\ \A i \in s..(j - 1) : items[i].k <= to
  IN [seq |-> SubSeq(items, s, e - 1), stop |-> IF e <= N THEN e ELSE 0]

DescAlgo(c, from, to) ==
  LET s == CHOOSE j \in 0..c : /\ (j >= 1 => items[j].k <= from)
                               /\ \A i \in (j + 1)..c : items[i].k > from
      e == CHOOSE j \in 0..s : /\ (j >= 1 => items[j].k < to)
                               /\ \A i \in (j + 1)..s : items[i].k >= to
  IN [seq |-> Reverse(SubSeq(items, e + 1, s)), stop |-> e]

RangeTheoremFor(P) ==
  (N > 0 /\ gran = 1) =>
    \A from, to \in P :
      /\ \A c \in AscStarts(from) :
            /\ AscAlgo(c, from, to).seq = InRange(from, to)
            /\ AscAlgo(c, from, to).stop = (IF AscE(from, to) <= N THEN AscE(from, to) ELSE 0)
      /\ \A c \in DescStarts(from) :
            /\ DescAlgo(c, from, to).seq = Reverse(InRange(to, from))
            /\ DescAlgo(c, from, to).stop = DescE(from, to)
      /\ SubSeq(items, AscS(from), AscE(from, to) - 1) = InRange(from, to)
      /\ SubSeq(items, DescE(from, to) + 1, DescS(from)) = InRange(to, from)

-----------------------------------------------------------------------------
(* design-level state machine: every call with every argument from the small domains *)
Init == /\ unique \in BOOLEAN /\ gran \in Grans
        /\ items = <<>> /\ cur = 0 /\ off = FALSE /\ fetched = FALSE /\ nid = 0

Res  == {"true", "false"}
Res4 == {"true", "false", "error", "panic"}
\* with gran > 1 every key comes in two variants that compare equal
KeyDom   == IF gran = 1 THEN Keys ELSE {gran * k + t : k \in Keys \ {0}, t \in {0, 1}}
Probes   == IF gran = 1 THEN Keys \cup {-1, 3} ELSE KeyDom
Room     == N < MaxItems /\ nid < MaxAdds
CurItem  == IF cur # 0 THEN items[cur] ELSE [k |-> 0, id |-> 0, v |-> ""]

DAdd      == \E k \in KeyDom, v \in Vals, r \in Res : ((unique /\ Has(k)) \/ Room) /\ Add(k, v, r, -2)
DAddIf    == \E k \in KeyDom, v \in Vals, r \in Res : (Has(k) \/ Room) /\ AddIfNotExist(k, v, r, -2)
DUpsert   == \E k \in KeyDom, v \in Vals, r \in Res : (Has(k) \/ Room) /\ Upsert(k, v, r, -2)
DUpdate   == \E k \in KeyDom, v \in Vals, r \in Res : Update(k, v, r, -2)
DUpdKey   == \E k \in KeyDom, r \in Res : UpdateKey(k, r, -2)
DUpdCurK  == \E k \in KeyDom, r \in Res4 : UpdateCurrentKey(k, r)
DUpdCurI  == \E k \in KeyDom, v \in Vals, r \in Res4 : UpdateCurrentItem(k, v, r)
DUpdCurV  == \E v \in Vals, r \in Res : UpdateCurrentValue(v, r)
DRemove   == \E k \in KeyDom, r \in Res : Remove(k, r, -2, -2)
DRemCur   == \E r \in Res : RemoveCurrentItem(r)
DFind     == \E k \in Probes, f \in BOOLEAN, r \in Res : Find(k, f, r, -2)
DFindDesc == \E k \in Probes, r \in Res : FindInDescendingOrder(k, r, -2)
DFindID   == \E k \in Probes, id \in 1..MaxAdds, r \in Res : FindWithID(k, id, r, -2)
DFirst    == \E r \in Res : First(r)
DLast     == \E r \in Res : Last(r)
DNext     == \E r \in Res : Next(r)
DPrev     == \E r \in Res : Previous(r)
DGetV     == GetCurrentValue(CurItem.v)
DGetI     == GetCurrentItem(CurItem.k, CurItem.id, CurItem.v)
DScanF    == ScanFwd(items)
DScanB    == ScanBwd(Reverse(items))
DRangeA   == \E from, to \in Probes :
                RangeAsc(from, to, [i \in 1..(AscE(from, to) - AscS(from)) |-> KV(AscS(from) + i - 1)])
DRangeD   == \E from, to \in Probes :
                RangeDesc(from, to, [i \in 1..(DescS(from) - DescE(from, to)) |-> KV(DescS(from) - i + 1)])
DObserve  == Observe(items, N, TRUE)

Step == \/ DAdd \/ DAddIf \/ DUpsert \/ DUpdate \/ DUpdKey \/ DUpdCurK \/ DUpdCurI \/ DUpdCurV
        \/ DRemove \/ DRemCur \/ DFind \/ DFindDesc \/ DFindID \/ DFirst \/ DLast \/ DNext \/ DPrev
        \/ DGetV \/ DGetI \/ DScanF \/ DScanB \/ DRangeA \/ DRangeD \/ DObserve

Spec == Init /\ [][Step]_vars

TypeOK == /\ unique \in BOOLEAN /\ gran \in Grans /\ nid \in 0..MaxAdds
          /\ \A i \in 1..N : items[i].k \in KeyDom /\ items[i].id \in 1..nid /\ items[i].v \in Vals
          /\ off \in BOOLEAN /\ fetched \in BOOLEAN
RangeTheorem == RangeTheoremFor(Probes)
\* reachability witnesses (their violation is expected when switched on; used once to see that the
\* interesting states exist): a vacated-slot cursor, and an unfetched valid cursor
=============================================================================
