SPECIFICATION SimSpec
CONSTANTS
  AllowD1 = TRUE
  AllowD2 = TRUE
  Keys = {0, 1, 2, 3, 4, 5}
  Vals = {"a"}
  Grans = {1, 10}
  MaxItems = 14
  MaxAdds = 60
  Depth = 60
INVARIANTS Sorted UniqueOK IdsDistinct CursorOK Emit
CHECK_DEADLOCK FALSE
