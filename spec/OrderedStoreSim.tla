-------------------------- MODULE OrderedStoreSim --------------------------
(* Program generator (spec -> code): OrderedStore plus a history of the calls made, explored by
   `tlc -simulate`.  Every random behaviour of the model is printed as a program (calls with arguments,
   no results); the driver runs it on real B-trees of every configuration and the resulting call logs go
   back through OrderedStoreTrace.  Values are made distinct per step so that updates are visible. *)
EXTENDS OrderedStore, Json

CONSTANT Depth
VARIABLE hist

Val == "s" \o ToString(Len(hist))
Rec(op, k, k2, id, first) == [op |-> op, k |-> k, k2 |-> k2, v |-> Val, id |-> id, first |-> first]
H(op, k, k2, id, first) == hist' = Append(hist, Rec(op, k, k2, id, first))

SimInit == Init /\ hist = <<>>

SimStep ==
  \/ \E k \in KeyDom, r \in Res : ((unique /\ Has(k)) \/ Room) /\ Add(k, Val, r, -2) /\ H("Add", k, 0, 0, FALSE)
  \/ \E k \in KeyDom, r \in Res : (Has(k) \/ Room) /\ AddIfNotExist(k, Val, r, -2) /\ H("AddIfNotExist", k, 0, 0, FALSE)
  \/ \E k \in KeyDom, r \in Res : (Has(k) \/ Room) /\ Upsert(k, Val, r, -2) /\ H("Upsert", k, 0, 0, FALSE)
  \/ \E k \in KeyDom, r \in Res : Update(k, Val, r, -2) /\ H("Update", k, 0, 0, FALSE)
  \/ \E k \in KeyDom, r \in Res : UpdateKey(k, r, -2) /\ H("UpdateKey", k, 0, 0, FALSE)
  \/ \E k \in KeyDom, r \in Res4 : UpdateCurrentKey(k, r) /\ H("UpdateCurrentKey", k, 0, 0, FALSE)
  \/ \E k \in KeyDom, r \in Res4 : UpdateCurrentItem(k, Val, r) /\ H("UpdateCurrentItem", k, 0, 0, FALSE)
  \/ \E r \in Res : UpdateCurrentValue(Val, r) /\ H("UpdateCurrentValue", 0, 0, 0, FALSE)
  \/ \E k \in KeyDom, r \in Res : Remove(k, r, -2, -2) /\ H("Remove", k, 0, 0, FALSE)
  \/ \E r \in Res : RemoveCurrentItem(r) /\ H("RemoveCurrentItem", 0, 0, 0, FALSE)
  \/ \E k \in Probes, f \in BOOLEAN, r \in Res : Find(k, f, r, -2) /\ H("Find", k, 0, 0, f)
  \/ \E k \in Probes, r \in Res : FindInDescendingOrder(k, r, -2) /\ H("FindInDescendingOrder", k, 0, 0, FALSE)
  \/ \E k \in Probes, id \in 1..(nid + 1), r \in Res : FindWithID(k, id, r, -2) /\ H("FindWithID", k, 0, id, FALSE)
  \/ \E r \in Res : First(r) /\ H("First", 0, 0, 0, FALSE)
  \/ \E r \in Res : Last(r) /\ H("Last", 0, 0, 0, FALSE)
  \/ \E r \in Res : Next(r) /\ H("Next", 0, 0, 0, FALSE)
  \/ \E r \in Res : Previous(r) /\ H("Previous", 0, 0, 0, FALSE)
  \/ DGetV /\ H("GetCurrentValue", 0, 0, 0, FALSE)
  \/ DGetI /\ H("GetCurrentItem", 0, 0, 0, FALSE)
  \/ DScanF /\ H("ScanFwd", 0, 0, 0, FALSE)
  \/ DScanB /\ H("ScanBwd", 0, 0, 0, FALSE)
  \/ \E from, to \in Probes :
        /\ RangeAsc(from, to, [i \in 1..(AscE(from, to) - AscS(from)) |-> KV(AscS(from) + i - 1)])
        /\ H("RangeAsc", from, to, 0, FALSE)
  \/ \E from, to \in Probes :
        /\ RangeDesc(from, to, [i \in 1..(DescS(from) - DescE(from, to)) |-> KV(DescS(from) - i + 1)])
        /\ H("RangeDesc", from, to, 0, FALSE)

SimSpec == SimInit /\ [][SimStep]_<<vars, hist>>

Emit == (Len(hist) = Depth) => PrintT(<<"BEH", ToJson([unique |-> unique, gran |-> gran, prog |-> hist])>>)
=============================================================================
