------------------------- MODULE OrderedStoreTrace -------------------------
(* Trace validation for OrderedStore: call logs recorded from real btree.Btree instances
   (driver harness/cmd/orderedstore) are consumed line by line; each line must be an enabled
   action of OrderedStore with exactly the logged arguments and the logged result, and must lead
   to a state that agrees with what the driver observed after the call:
     sane     the driver's own in-order walk of the node repository found the structure sound: parent ids match,
              counts within the slot length, no empty non-root node, no item with nil id or value, keys in order,
              and the call did not change the relative order of the items that were stored before it
     cnt      Count()
     ck, cid  GetCurrentKey() (key, normalised item id)            - black box
     tc       item id at currentItemRef (0 nil, -1 vacated slot, -2 not observed) - white box (reflection, read only)
     trk      ids of the items the B-tree reported to its ItemActionTracker as added (a), updated (u), removed (r)
     aff      ids of the items whose (key, id, value) changed, from the driver's own in-order walk of the
              node repository before/after the call (<<-2>>: not observed); narrows the choice of the
              item a Remove takes when several have the same key.  Contents are compared in full by the
              "Observe" lines (after every call on small trees, every n-th call on big ones).
   Item ids are normalised by order of first appearance in that walk, so the n-th created item has id n. *)
EXTENDS OrderedStore, Json

VARIABLES l,        \* next trace line to consume
          dead      \* the trace being read was rejected at an earlier line; its remaining lines are skipped

Trace == ndJsonDeserialize("trace.ndjson")

tvars == <<vars, l, dead>>

E == Trace[l]
IsEv(e) == l <= Len(Trace) /\ ~dead /\ Trace[l].ev = e /\ l' = l + 1 /\ dead' = FALSE

Blank  == /\ unique = FALSE /\ gran = 1 /\ items = <<>> /\ cur = 0 /\ off = FALSE /\ fetched = FALSE /\ nid = 0
Blank1 == /\ unique' = FALSE /\ gran' = 1 /\ items' = <<>> /\ cur' = 0 /\ off' = FALSE /\ fetched' = FALSE /\ nid' = 0

\* TLC registers: 1 = highest line reached by a live (not rejected) state, 2 = highest line reached at all
TraceInit == l = 1 /\ dead = FALSE /\ TLCSet(1, 1) /\ TLCSet(2, 1) /\ Blank

(* Many traces are concatenated; every trace starts with a "Reset" line (the file ends with one more).
   Every action consumes exactly one line, so breadth-first search (one worker) proceeds line by line.
   A trace is rejected at line n when no live state reaches line n + 1; the "dead" state (blank model)
   then skips to the next Reset line, where the rejection is printed, and validation resumes. *)
TraceReset == /\ l <= Len(Trace) /\ Trace[l].ev = "Reset" /\ l' = l + 1 /\ dead' = FALSE /\ Blank1
              /\ (dead /\ TLCGet(1) < l) => PrintT(<<"REJ", TLCGet(1)>>)

TraceDie  == /\ l <= Len(Trace) /\ ~dead /\ Trace[l].ev # "Reset" /\ l' = l + 1 /\ dead' = TRUE /\ Blank1
TraceSkip == /\ l <= Len(Trace) /\ dead /\ Trace[l].ev # "Reset" /\ l' = l + 1 /\ UNCHANGED <<vars, dead>>

TraceSetup == /\ IsEv("Setup") /\ N = 0 /\ nid = 0
              /\ unique' = E.unique /\ gran' = E.gran
              /\ UNCHANGED <<items, cur, off, fetched, nid>>

Rng(s) == {s[i] : i \in 1..Len(s)}
\* the one item the call changed, as a hint for the actions' choices (-3: none or several: matches no item)
A1 == IF E.aff = <<-2>> THEN -2 ELSE IF Len(E.aff) = 1 THEN E.aff[1] ELSE -3

\* what the B-tree told its ItemActionTracker during the call (the transaction layer locks, writes, deletes and
\* replays exactly these items): removals and additions are exactly the ids that left / entered the contents, every
\* item whose key or value changed was reported as updated, and nothing else was reported as changed
IdsOf(s) == {s[i].id : i \in 1..Len(s)}
TrkAgrees ==
  LET before == IdsOf(items)  after == IdsOf(items') IN
  /\ Rng(E.trk.r) = before \ after
  /\ Rng(E.trk.a) = after \ before
  /\ Rng(E.trk.u) \subseteq (before \cap after)
  /\ \A i \in 1..Len(items), j \in 1..Len(items') :
        (items[i].id = items'[j].id /\ (items[i].k # items'[j].k \/ items[i].v # items'[j].v)) => items[i].id \in Rng(E.trk.u)

\* the post-state agrees with what the driver observed after the call (contents: see TObserve)
Post == /\ E.sane = TRUE
        /\ TrkAgrees
        /\ Len(items') = E.cnt
        /\ (E.tc # -2 => TrueCur' = E.tc)
        /\ CurView' = <<E.ck, E.cid>>
        /\ (E.aff # <<-2>> => (Rng(E.aff) = {}) = (items' = items))

TAdd      == IsEv("Add") /\ Add(E.k, E.v, E.r, E.tc) /\ Post
TAddIf    == IsEv("AddIfNotExist") /\ AddIfNotExist(E.k, E.v, E.r, E.tc) /\ Post
TUpsert   == IsEv("Upsert") /\ Upsert(E.k, E.v, E.r, E.tc) /\ Post
TUpdate   == IsEv("Update") /\ Update(E.k, E.v, E.r, E.tc) /\ Post
TUpdKey   == IsEv("UpdateKey") /\ UpdateKey(E.k, E.r, E.tc) /\ Post
TUpdCurK  == IsEv("UpdateCurrentKey") /\ UpdateCurrentKey(E.k, E.r) /\ Post
TUpdCurI  == IsEv("UpdateCurrentItem") /\ UpdateCurrentItem(E.k, E.v, E.r) /\ Post
TUpdCurV  == IsEv("UpdateCurrentValue") /\ UpdateCurrentValue(E.v, E.r) /\ Post
TRemove   == IsEv("Remove") /\ Remove(E.k, E.r, A1, E.tc) /\ Post
TRemCur   == IsEv("RemoveCurrentItem") /\ RemoveCurrentItem(E.r) /\ Post
TFind     == IsEv("Find") /\ Find(E.k, E.first, E.r, E.tc) /\ Post
TFindDesc == IsEv("FindInDescendingOrder") /\ FindInDescendingOrder(E.k, E.r, E.tc) /\ Post
TFindID   == IsEv("FindWithID") /\ FindWithID(E.k, E.id, E.r, E.tc) /\ Post
TFirst    == IsEv("First") /\ First(E.r) /\ Post
TLast     == IsEv("Last") /\ Last(E.r) /\ Post
TNext     == IsEv("Next") /\ Next(E.r) /\ Post
TPrev     == IsEv("Previous") /\ Previous(E.r) /\ Post
TGetV     == IsEv("GetCurrentValue") /\ E.r = "true" /\ GetCurrentValue(E.rv) /\ Post
TGetI     == IsEv("GetCurrentItem") /\ E.r = "true" /\ GetCurrentItem(E.rk, E.rid, E.rv) /\ Post
TScanF    == IsEv("ScanFwd") /\ E.r = "true" /\ ScanFwd(E.seq) /\ Post
TScanB    == IsEv("ScanBwd") /\ E.r = "true" /\ ScanBwd(E.seq) /\ Post
TRangeA   == IsEv("RangeAsc") /\ E.r = "true" /\ RangeAsc(E.k, E.k2, E.seq) /\ Post
TRangeD   == IsEv("RangeDesc") /\ E.r = "true" /\ RangeDesc(E.k, E.k2, E.seq) /\ Post
TObserve  == IsEv("Observe") /\ Observe(E.seq, E.cnt, E.sane)

TraceNext == \/ TraceReset \/ TraceDie \/ TraceSkip \/ TraceSetup
             \/ TAdd \/ TAddIf \/ TUpsert \/ TUpdate \/ TUpdKey \/ TUpdCurK \/ TUpdCurI \/ TUpdCurV
             \/ TRemove \/ TRemCur \/ TFind \/ TFindDesc \/ TFindID \/ TFirst \/ TLast \/ TNext \/ TPrev
             \/ TGetV \/ TGetI \/ TScanF \/ TScanB \/ TRangeA \/ TRangeD \/ TObserve

TraceSpec == TraceInit /\ [][TraceNext]_tvars

HighWater == /\ IF ~dead /\ l > TLCGet(1) THEN TLCSet(1, l) ELSE TRUE
             /\ IF l > TLCGet(2) THEN TLCSet(2, l) ELSE TRUE
\* the whole file was read (rejections were printed on the way); "HWM" keeps vlib's convention
TraceAccepted == /\ PrintT(<<"HWM", TLCGet(2) - 1>>)
                 /\ TLCGet(2) - 1 = Len(Trace)
=============================================================================
