SPECIFICATION TraceSpec
CONSTANTS
  AllowD1 = TRUE
  AllowD2 = TRUE
  Keys = {0}
  Vals = {"a"}
  Grans = {1}
  MaxItems = 0
  MaxAdds = 0
INVARIANTS Sorted UniqueOK IdsDistinct CursorOK
CONSTRAINT HighWater
POSTCONDITION TraceAccepted
CHECK_DEADLOCK FALSE
