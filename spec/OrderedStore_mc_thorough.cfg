SPECIFICATION Spec
CONSTANTS
  AllowD1 = TRUE
  AllowD2 = TRUE
  Keys = {0, 1, 2}
  Vals = {"a", "b"}
  Grans = {1}
  MaxItems = 4
  MaxAdds = 5
INVARIANTS TypeOK Sorted UniqueOK IdsDistinct CursorOK RangeTheorem
CHECK_DEADLOCK FALSE
