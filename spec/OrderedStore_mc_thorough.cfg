SPECIFICATION Spec
CONSTANTS
  AllowD1 = TRUE
  AllowD2 = TRUE
  Keys = {0, 1, 2}
  Vals = {"a", "b"}
  Grans = {1, 10}
  MaxItems = 3
  MaxAdds = 4
INVARIANTS TypeOK Sorted UniqueOK IdsDistinct CursorOK RangeTheorem
CHECK_DEADLOCK FALSE
