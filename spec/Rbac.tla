-------------------------------- MODULE Rbac --------------------------------
(* Access-control decisions of SOP (/repo/rbac.go, rbac_blueprint.go, rbac_registry.go).

   A case is a caller (set of roles, user id, system flag), a resource name, the resource's local ACL
   (visibility, owner, role grants, user grants) - for all actions at once, because that is what the UI
   capability map (ResolveRBACMap) evaluates.  The model has one step: Evaluate, which fixes the outcome
   of every entry point of the code for the case:
       authz[a]  = sop.Authorize(ctx, access, a)                      (local ACL only, no resource name)
       policy[a] = sop.CheckPolicy / EnforcePolicy / CanPerformAction  (allowed or not)
       ui        = sop.ResolveRBACMap for a registered blueprint without evaluator:
                   capability name -> bool, one entry per action of the blueprint.

   `Decision` is written from the statement of C34.  `CodeAuthorize` / `CodePolicy` follow the order of the
   checks in the code (layer 1 system invariants, then the local ACL: system visibility, admin, owner,
   public read/list, role grants, user grants).  TLC checks on the whole domain that the layered
   evaluation satisfies every clause of the statement and equals Decision; the real code is then checked
   against Decision case by case (RbacTrace).

   Definitions the statement leaves to the code, taken from it and named here:
     CoreNames          the core system resources are exactly "SOP" and "LongTermMemory" (IsSystemReadOnly);
     DefaultIsPublic    a resource whose visibility is the empty string (Go zero value) is public;
     CapOf              action -> UI capability name (ActionToUICapability);
     an owner id "" means "no owner"; a grant list containing "*" grants every action.               *)
EXTENDS Integers, Sequences, FiniteSets, TLC, Json

CONSTANTS RoleNames,      \* role names a caller may hold
          UserIds,        \* caller user ids, "" = anonymous
          ResNames,       \* resource names
          Visibilities,   \* visibility strings incl. ""
          OwnerIds,       \* owner ids, "" = none
          RoleGrantKeys,  \* roles that may appear as keys of ResourceAccess.Roles
          UserGrantKeys,  \* users that may appear as keys of ResourceAccess.Users
          GrantLists,     \* possible values of a grant entry: a set of sets of strings (actions or "*")
          Emit            \* TRUE: print every case (exhaustive config), FALSE: silent

Actions   == {"read", "write", "delete", "list", "ai_select"}
CoreNames == {"SOP", "LongTermMemory"}
AdminRole == "Admin"
CapOf(a)  == CASE a = "read" -> "can_read" [] a = "write" -> "can_edit" [] a = "delete" -> "can_delete"
               [] a = "ai_select" -> "can_ai_select" [] OTHER -> a

VARIABLES caller,   \* [roles : SUBSET STRING, user : STRING, system : BOOLEAN]
          name,     \* resource name
          access,   \* [vis, owner, roles : key -> set of grant strings, users : key -> set of grant strings]
          bp,       \* actions of the asset blueprint the UI map is resolved for (a set)
          out,      \* outcome, see Outcome
          pc        \* "case" | "done"

vars == <<caller, name, access, bp, out, pc>>

-----------------------------------------------------------------------------
(* The statement of C34 *)
Mutating(a)      == a \in {"write", "delete"}
IsAdmin(c)       == AdminRole \in c.roles
IsOwner(c, acc)  == acc.owner # "" /\ c.user = acc.owner
Granted(g, k, a) == k \in DOMAIN g /\ (a \in g[k] \/ "*" \in g[k])
RoleGrant(c, acc, a) == \E r \in c.roles : Granted(acc.roles, r, a)
UserGrant(c, acc, a) == Granted(acc.users, c.user, a)
IsPublic(acc)    == acc.vis = "public" \/ acc.vis = ""          \* DefaultIsPublic
Entitled(c, acc, a) == \/ IsAdmin(c) \/ IsOwner(c, acc) \/ RoleGrant(c, acc, a) \/ UserGrant(c, acc, a)
                       \/ (IsPublic(acc) /\ a \in {"read", "list"})

LocalDecision(c, acc, a) == IF acc.vis = "system" THEN c.system ELSE Entitled(c, acc, a)
Decision(c, n, acc, a)   == ~(n \in CoreNames /\ Mutating(a)) /\ LocalDecision(c, acc, a)

(* The order of evaluation in the code *)
CodeAuthorize(c, acc, a) ==
  IF acc.vis = "system" THEN c.system
  ELSE IF AdminRole \in c.roles THEN TRUE
  ELSE IF acc.owner # "" /\ c.user = acc.owner THEN TRUE
  ELSE IF (acc.vis = "public" \/ acc.vis = "") /\ (a = "read" \/ a = "list") THEN TRUE
  ELSE IF \E r \in c.roles : r \in DOMAIN acc.roles /\ (a \in acc.roles[r] \/ "*" \in acc.roles[r]) THEN TRUE
  ELSE IF c.user \in DOMAIN acc.users /\ (a \in acc.users[c.user] \/ "*" \in acc.users[c.user]) THEN TRUE
  ELSE FALSE

CodePolicy(c, n, acc, a) ==            \* "nil" | "readonly" | "unauthorized"
  IF n \in CoreNames /\ (a = "write" \/ a = "delete") THEN "readonly"
  ELSE IF ~CodeAuthorize(c, acc, a) THEN "unauthorized" ELSE "nil"

\* what the entry points return for a case, by the statement (Expected) and by the order of the code (Layered)
Caps(b) == {CapOf(a) : a \in b}
Expected(c, n, acc, b) ==
  [authz  |-> [a \in Actions |-> LocalDecision(c, acc, a)],
   policy |-> [a \in Actions |-> Decision(c, n, acc, a)],
   ui     |-> [k \in Caps(b) |-> \E a \in b : CapOf(a) = k /\ Decision(c, n, acc, a)]]
Layered(c, n, acc, b) ==
  [authz  |-> [a \in Actions |-> CodeAuthorize(c, acc, a)],
   policy |-> [a \in Actions |-> CodePolicy(c, n, acc, a) = "nil"],
   ui     |-> [k \in Caps(b) |-> \E a \in b : CapOf(a) = k /\ CodePolicy(c, n, acc, a) = "nil"]]

-----------------------------------------------------------------------------
GrantMaps(keys) == UNION {[K -> GrantLists] : K \in SUBSET keys}

Callers  == [roles : SUBSET RoleNames, user : UserIds, system : BOOLEAN]
Accesses == [vis : Visibilities, owner : OwnerIds, roles : GrantMaps(RoleGrantKeys), users : GrantMaps(UserGrantKeys)]

NoOut == [authz |-> <<>>, policy |-> <<>>, ui |-> <<>>]

Init == /\ caller \in Callers /\ name \in ResNames /\ access \in Accesses
        /\ bp = Actions /\ out = NoOut /\ pc = "case"

\* The one step: every entry point is evaluated for the case (c, n, acc) and blueprint actions b (b = {}
\* also stands for an unregistered asset type: ResolveRBACMap then returns the empty map).  o is the
\* outcome; it must be what the statement prescribes.
Evaluate(c, n, acc, b, o) ==
  /\ o = Expected(c, n, acc, b)
  /\ caller' = c /\ name' = n /\ access' = acc /\ bp' = b
  /\ out' = o /\ pc' = "done"

Next == pc = "case" /\ Evaluate(caller, name, access, bp, Expected(caller, name, access, bp))

Spec == Init /\ [][Next]_vars

-----------------------------------------------------------------------------
(* C34, clause by clause, on the outcome *)
Done == pc = "done"
Allowed(a) == out.policy[a]

\* core system resources can never be written or deleted, by anyone
CoreReadOnly == Done /\ name \in CoreNames => \A a \in Actions : Mutating(a) => ~Allowed(a)

\* system-visibility resources are accessible only to system callers
SystemOnly == Done /\ access.vis = "system" => \A a \in Actions : (Allowed(a) \/ out.authz[a]) => caller.system

\* otherwise an action is allowed only to admins, the owner, grant holders, or (read/list) anyone if public
OnlyEntitled == Done /\ access.vis # "system" =>
                  \A a \in Actions : (Allowed(a) \/ out.authz[a]) => Entitled(caller, access, a)

\* the evaluation in layers, in the order of the code, computes exactly the decision of the statement
LayersEqualDecision == Done => out = Layered(caller, name, access, bp)

\* the UI capability map always agrees with the enforcement decision
UiAgrees == Done => /\ DOMAIN out.ui = {CapOf(a) : a \in bp}
                    /\ \A a \in bp : out.ui[CapOf(a)] = Allowed(a)

\* distinct actions never share a capability name (otherwise the map could not agree with both)
CapInjective == \A a, b \in Actions : CapOf(a) = CapOf(b) => a = b

CaseJson == [roles |-> caller.roles, user |-> caller.user, system |-> caller.system, name |-> name,
             vis |-> access.vis, owner |-> access.owner,
             rg |-> [k \in DOMAIN access.roles |-> access.roles[k]],
             ug |-> [k \in DOMAIN access.users |-> access.users[k]]]
EmitCase == (Emit /\ pc = "case") => PrintT(<<"CASE", ToJson(CaseJson)>>)
=============================================================================
