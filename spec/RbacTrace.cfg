SPECIFICATION TraceSpec
CONSTANTS
  RoleNames = {}
  UserIds = {}
  ResNames = {}
  Visibilities = {}
  OwnerIds = {}
  RoleGrantKeys = {}
  UserGrantKeys = {}
  GrantLists = {}
  Emit = FALSE
INVARIANTS CoreReadOnly SystemOnly OnlyEntitled LayersEqualDecision UiAgrees CapInjective
CHECK_DEADLOCK FALSE
