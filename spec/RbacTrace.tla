------------------------------ MODULE RbacTrace ------------------------------
(* Trace validation for C34.  Every line is one case evaluated by the real code
   (harness/cmd/rbac): caller, resource, ACL, blueprint actions and what sop.Authorize, sop.CheckPolicy,
   sop.EnforcePolicy, sop.CanPerformAction and sop.ResolveRBACMap returned for every action.  A line is
   judged by Evaluate iff the recorded outcome is the one Rbac prescribes.  A line whose outcome
   differs is taken by TraceBad, which prints <<"BAD", line, expected>>; python reports every such
   line and checks that TLC judged every line (2 distinct states per line).                                                                       *)
EXTENDS Rbac

VARIABLE l

Trace == ndJsonDeserialize("trace.ndjson")
tvars == <<vars, l>>

E == Trace[l]
ToSet(s) == {s[i] : i \in DOMAIN s}
Keys(s)  == {s[i].k : i \in DOMAIN s}
At(s, k) == s[CHOOSE i \in DOMAIN s : s[i].k = k].v
GrantMap(s) == [k \in Keys(s) |-> ToSet(At(s, k))]       \* [{"k": key, "v": [grant, ...]}, ...]
BoolMap(s)  == [k \in Keys(s) |-> At(s, k)]              \* [{"k": capability, "v": bool}, ...]

EvCaller == [roles |-> ToSet(E.roles), user |-> E.user, system |-> E.system]
EvAccess == [vis |-> E.vis, owner |-> E.owner, roles |-> GrantMap(E.rg), users |-> GrantMap(E.ug)]
EvBp     == ToSet(E.bp)
\* the three policy entry points must tell the same story
Consistent == \A a \in Actions : /\ E.res[a].can = (E.res[a].policy = "nil")
                                 /\ E.res[a].enforce = E.res[a].policy
EvOut == [authz  |-> [a \in Actions |-> E.res[a].authz],
          policy |-> [a \in Actions |-> E.res[a].can],
          ui     |-> BoolMap(E.ui)]

\* Cases are independent: every line is an initial state of its own and is judged in one step (a chain of
\* 10^5 lines would cost TLC one BFS level per line).  TLC therefore reports 2 distinct states per line.
TraceInit == /\ l \in 1..Len(Trace) /\ Trace[l].ev = "Case"
             /\ caller = [roles |-> {}, user |-> "", system |-> FALSE] /\ name = ""
             /\ access = [vis |-> "", owner |-> "", roles |-> <<>>, users |-> <<>>]
             /\ bp = {} /\ out = NoOut /\ pc = "case"

Good == Consistent /\ EvOut = Expected(EvCaller, E.name, EvAccess, EvBp)

TraceCase == /\ pc = "case" /\ Good /\ l' = l
             /\ Evaluate(EvCaller, E.name, EvAccess, EvBp, EvOut)

TraceBad == /\ pc = "case" /\ ~Good /\ l' = l
            /\ PrintT(<<"BAD", l, ToJson(Expected(EvCaller, E.name, EvAccess, EvBp))>>)
            /\ pc' = "bad" /\ UNCHANGED <<caller, name, access, bp, out>>

TraceNext == TraceCase \/ TraceBad

TraceSpec == TraceInit /\ [][TraceNext]_tvars
=============================================================================
