------------------------------ MODULE RbacTrace ------------------------------
(* Trace validation for C34.  Every line is one case evaluated by the real code
   (harness/cmd/rbac): caller, resource, ACL, blueprint actions and what sop.Authorize, sop.CheckPolicy,
   sop.EnforcePolicy, sop.CanPerformAction and sop.ResolveRBACMap returned for every action.  A line is
   consumed by Evaluate iff the recorded outcome is the one Rbac prescribes.  Cases are independent, so a
   line whose outcome differs is consumed by TraceBad, which prints <<"BAD", line, expected>>; python
   reports every such line.                                                                        *)
EXTENDS Rbac

VARIABLE l

Trace == ndJsonDeserialize("trace.ndjson")
tvars == <<vars, l>>

E == Trace[l]
ToSet(s) == {s[i] : i \in DOMAIN s}
Keys(s)  == {s[i].k : i \in DOMAIN s}
At(s, k) == s[CHOOSE i \in DOMAIN s : s[i].k = k].v
GrantMap(s) == [k \in Keys(s) |-> ToSet(At(s, k))]       \* [{"k": key, "v": [grant, ...]}, ...]
BoolMap(s)  == [k \in Keys(s) |-> At(s, k)]              \* [{"k": capability, "v": bool}, ...]

EvCaller == [roles |-> ToSet(E.roles), user |-> E.user, system |-> E.system]
EvAccess == [vis |-> E.vis, owner |-> E.owner, roles |-> GrantMap(E.rg), users |-> GrantMap(E.ug)]
EvBp     == ToSet(E.bp)
\* the three policy entry points must tell the same story
Consistent == \A a \in Actions : /\ E.res[a].can = (E.res[a].policy = "nil")
                                 /\ E.res[a].enforce = E.res[a].policy
EvOut == [authz  |-> [a \in Actions |-> E.res[a].authz],
          policy |-> [a \in Actions |-> E.res[a].can],
          ui     |-> BoolMap(E.ui)]

IsEv(e) == l <= Len(Trace) /\ Trace[l].ev = e /\ l' = l + 1

TraceInit == /\ l = 1 /\ TLCSet(1, 1)
             /\ caller = [roles |-> {}, user |-> "", system |-> FALSE] /\ name = ""
             /\ access = [vis |-> "", owner |-> "", roles |-> <<>>, users |-> <<>>]
             /\ bp = {} /\ out = NoOut /\ pc = "case"

TraceReset == IsEv("Reset") /\ UNCHANGED vars

Good == Consistent /\ EvOut = Expected(EvCaller, E.name, EvAccess, EvBp)

TraceCase == IsEv("Case") /\ Good /\ Evaluate(EvCaller, E.name, EvAccess, EvBp, EvOut)

TraceBad == /\ IsEv("Case") /\ ~Good
            /\ PrintT(<<"BAD", l, ToJson(Expected(EvCaller, E.name, EvAccess, EvBp))>>)
            /\ UNCHANGED vars

TraceNext == TraceReset \/ TraceCase \/ TraceBad

TraceSpec == TraceInit /\ [][TraceNext]_tvars

HighWater == IF l > TLCGet(1) THEN TLCSet(1, l) ELSE TRUE
TraceAccepted == /\ PrintT(<<"HWM", TLCGet(1) - 1>>)
                 /\ TLCGet(1) - 1 = Len(Trace)
=============================================================================
