SPECIFICATION Spec
CONSTANTS
  RoleNames = {"Admin", "User", "X"}
  UserIds = {"u1", "u2", ""}
  ResNames = {"SOP", "LongTermMemory", "other"}
  Visibilities = {"public", "private", "system", ""}
  OwnerIds = {"u1", ""}
  RoleGrantKeys = {"User"}
  UserGrantKeys = {"u2"}
  GrantLists = {{"read"}, {"*"}, {"write", "delete"}}
  Emit = TRUE
INVARIANTS CoreReadOnly SystemOnly OnlyEntitled LayersEqualDecision UiAgrees CapInjective EmitCase
CHECK_DEADLOCK FALSE
