SPECIFICATION Spec
CONSTANTS
  RoleNames = {"Admin", "User", "Guest", "X"}
  UserIds = {"u1", "u2", ""}
  ResNames = {"SOP", "LongTermMemory", "other"}
  Visibilities = {"public", "private", "system", ""}
  OwnerIds = {"u1", ""}
  RoleGrantKeys = {"User", "X"}
  UserGrantKeys = {"u2"}
  GrantLists = {{"list"}, {"*"}, {"write", "delete", "ai_select"}}
  Emit = TRUE
INVARIANTS CoreReadOnly SystemOnly OnlyEntitled LayersEqualDecision UiAgrees CapInjective EmitCase
CHECK_DEADLOCK FALSE
