------------------------------ MODULE RegistryMap ------------------------------
(* The on-disk registry of SOP's filesystem backend (/repo/fs/hashmap.go, hashmap.fileregion.go,
   registrymap.go, registry.go) as a table  segment file x block x slot -> handle record, with the
   placement rules of the code, and its refinement to a plain map  id -> handle  (C21);
   plus the byte layout of one block: slots and checksum as byte ranges (C24).

   An id is the pair <<hi, lo>> that sop.UUID.Split() returns.
     block  = hi % hashMod                      (getBlockOffsetAndHandleInBlockOffset)
     ideal  = lo % SlotsPerBlock                (handlesPerBlock = 66 in the source)
   findOneFileRegion visits the segment files 1, 2, ... ; inside the block it looks at the ideal slot
   first and then at the slots 0, 1, ... (skipping the ideal one).  Reading stops at the first slot
   holding the id; a missing segment file ends the search.  The search *for writing* (used by add, set
   and remove) stops at the first slot that is free OR holds the id, and creates the next segment file
   when every existing one has a full block without the id.

   The search for writing therefore does not see a record of the id that lives behind a free slot
   (a displaced record whose predecessor was removed).  That behaviour contradicts C21; it is modelled
   as the CONSTANT-guarded finding branch of Step (StaleSearch), the intended behaviour (look for the id
   first, use the first free slot only when it is nowhere) is the strict branch.  The refinement
   invariants are checked on behaviours that never used the finding branch.  *)
EXTENDS Integers, Sequences, FiniteSets, TLC, Json

CONSTANTS
  SlotsPerBlock,   \* handlesPerBlock of the source (shrunk in the exhaustive configuration)
  HandleSize,      \* sop.HandleSizeInBytes
  BlockSize,       \* directio.BlockSize
  CrcWidth,        \* width of the checksum at the end of a block (marshalData)
  HashMods,        \* hash modulus values Init chooses from
  Ids,             \* ids of the exhaustive model, each <<hi, lo>>
  Vals,            \* handle payloads (the Version field stands for the whole payload)
  MaxOps,          \* bound on the number of mutating calls (exhaustive model)
  MaxSeg,          \* bound on segment files (exhaustive model, state constraint)
  StaleSearch,     \* TRUE: the code may behave as the search for writing is written today (finding branch)
  KeepHist         \* TRUE: record the call history and print every transition as a program

-----------------------------------------------------------------------------
(* C24: layout of one block.  Slot i occupies SlotRange(i), the checksum CrcRange. *)
Slots        == 0 .. (SlotsPerBlock - 1)
SlotRange(i) == (i * HandleSize) .. ((i + 1) * HandleSize - 1)
CrcRange     == (BlockSize - CrcWidth) .. (BlockSize - 1)

ASSUME LayoutFits ==
  /\ SlotsPerBlock \in Nat \ {0} /\ HandleSize \in Nat \ {0} /\ CrcWidth \in Nat \ {0} /\ BlockSize \in Nat
  /\ SlotsPerBlock * HandleSize + CrcWidth <= BlockSize
ASSUME RangesDisjoint ==
  /\ \A i \in Slots : SlotRange(i) \subseteq 0 .. (BlockSize - 1)
  /\ \A i, j \in Slots : i # j => SlotRange(i) \cap SlotRange(j) = {}
  /\ \A i \in Slots : SlotRange(i) \cap CrcRange = {}
  /\ CrcRange \subseteq 0 .. (BlockSize - 1)

-----------------------------------------------------------------------------
VARIABLES
  hashMod,  \* hash modulus of this registry (number of blocks per segment file)
  cells,    \* the non-zero slots on disk: set of [s, b, i, id, v]  (segment, block, slot, id, payload)
  nseg,     \* number of segment files that exist
  amap,     \* refinement target: the map  id -> payload  the callers were promised
  known,    \* every id a call has mentioned
  last,     \* the last call and its result
  stale,    \* the finding branch was used
  hist,     \* call history (exhaustive model only)
  wcase     \* C24: the slot-write / codec case in progress

vars == <<hashMod, cells, nseg, amap, known, last, stale, hist, wcase>>

NoCall  == [op |-> "Init", ids |-> <<>>, res |-> "ok", found |-> <<>>, pres |-> FALSE, abs |-> FALSE]
NoCase  == [kind |-> "none"]

Blk(id)   == id[1] % hashMod
Ideal(id) == id[2] % SlotsPerBlock
\* position of slot i in the scan order of id: the ideal slot first, then 0, 1, 2, ...
Rank(id, i)       == IF i = Ideal(id) THEN 0 ELSE IF i < Ideal(id) THEN i + 1 ELSE i
SlotOfRank(id, r) == IF r = 0 THEN Ideal(id) ELSE IF r <= Ideal(id) THEN r - 1 ELSE r
MinOf(S)  == CHOOSE x \in S : \A y \in S : x <= y
ToSet(q)  == {q[k] : k \in 1 .. Len(q)}
Cell(s, b, i, id, v) == [s |-> s, b |-> b, i |-> i, id |-> id, v |-> v]
AtPos(C, s, b, i)    == {c \in C : c.s = s /\ c.b = b /\ c.i = i}

(* findOneFileRegion(forWriting = false): the first record of id in search order, as a set of <= 1 cell *)
FindR(C, ns, id) ==
  LET M == {c \in C : c.id = id /\ c.b = Blk(id) /\ c.s <= ns} IN
  IF M = {} THEN {} ELSE
    LET s0 == MinOf({c.s : c \in M})
        M0 == {c \in M : c.s = s0}
    IN {CHOOSE c \in M0 : \A d \in M0 : Rank(id, c.i) <= Rank(id, d.i)}

(* findOneFileRegion(forWriting = true) as written: ranks of the slots of segment s where the search stops *)
StopRanks(C, s, id) ==
  LET others == {c.i : c \in {d \in C : d.s = s /\ d.b = Blk(id) /\ d.id # id}}     \* slots held by other ids
  IN {Rank(id, j) : j \in Slots \ others}                                          \* free, or holding id

FindWCoded(C, ns, id) ==
  LET S == {s \in 1 .. ns : StopRanks(C, s, id) # {}} IN
  IF S = {} THEN    \* every block full, id nowhere: setupNewFile creates the next segment file
    [s |-> ns + 1, b |-> Blk(id), i |-> Ideal(id), found |-> FALSE, ns |-> ns + 1]
  ELSE LET s == MinOf(S)
           i == SlotOfRank(id, MinOf(StopRanks(C, s, id)))
       IN [s |-> s, b |-> Blk(id), i |-> i, found |-> (\E c \in AtPos(C, s, Blk(id), i) : c.id = id), ns |-> ns]

(* the intended search for writing: the record of the id wherever it is, else the first free slot *)
FindWStrict(C, ns, id) ==
  LET r == FindR(C, ns, id) IN
  IF r # {} THEN LET c == CHOOSE x \in r : TRUE IN [s |-> c.s, b |-> c.b, i |-> c.i, found |-> TRUE, ns |-> ns]
  ELSE FindWCoded(C, ns, id)

FindW(coded, C, ns, id) == IF coded THEN FindWCoded(C, ns, id) ELSE FindWStrict(C, ns, id)

Put(C, w, id, v) == {c \in C : ~(c.s = w.s /\ c.b = w.b /\ c.i = w.i)} \cup {Cell(w.s, w.b, w.i, id, v)}
Zero(C, w)       == {c \in C : ~(c.s = w.s /\ c.b = w.b /\ c.i = w.i)}

Outcome(C, ns, res, n) == [cells |-> C, nseg |-> ns, res |-> res, n |-> n]

(* registryMap.add: findAndAdd one handle after the other; a handle whose id is found is never written
   (the real call keeps retrying until its deadline: "blocked") *)
RECURSIVE AddFrom(_, _, _, _, _, _)
AddFrom(coded, C, ns, ids, vals, k) ==
  IF k > Len(ids) THEN Outcome(C, ns, "ok", Len(ids))
  ELSE LET w == FindW(coded, C, ns, ids[k]) IN
       IF w.found THEN Outcome(C, w.ns, "blocked", k - 1)
       ELSE AddFrom(coded, Put(C, w, ids[k], vals[k]), w.ns, ids, vals, k + 1)

(* Registry.Update: registryMap.set with one handle at a time: written where the search for writing lands *)
RECURSIVE SetFrom(_, _, _, _, _, _)
SetFrom(coded, C, ns, ids, vals, k) ==
  IF k > Len(ids) THEN Outcome(C, ns, "ok", Len(ids))
  ELSE LET w == FindW(coded, C, ns, ids[k]) IN SetFrom(coded, Put(C, w, ids[k], vals[k]), w.ns, ids, vals, k + 1)

(* findFileRegion: all locations are resolved first (segment files may be created on the way) ... *)
RECURSIVE Locate(_, _, _, _, _, _)
Locate(coded, C, ns, ids, k, acc) ==
  IF k > Len(ids) THEN [locs |-> acc, ns |-> ns]
  ELSE LET w == FindW(coded, C, ns, ids[k]) IN Locate(coded, C, w.ns, ids, k + 1, Append(acc, w))

(* ... then Registry.UpdateNoLocks / registryMap.set writes them all *)
RECURSIVE PutAll(_, _, _, _, _)
PutAll(C, locs, ids, vals, k) ==
  IF k > Len(ids) THEN C ELSE PutAll(Put(C, locs[k], ids[k], vals[k]), locs, ids, vals, k + 1)

SetBatch(coded, C, ns, ids, vals) ==
  LET L == Locate(coded, C, ns, ids, 1, <<>>) IN Outcome(PutAll(C, L.locs, ids, vals, 1), L.ns, "ok", Len(ids))

(* registryMap.remove: all located first; any id not found fails the call before anything is zeroed *)
RECURSIVE ZeroAll(_, _, _)
ZeroAll(C, locs, k) == IF k > Len(locs) THEN C ELSE ZeroAll(Zero(C, locs[k]), locs, k + 1)

RemoveBatch(coded, C, ns, ids) ==
  LET L == Locate(coded, C, ns, ids, 1, <<>>) IN
  IF \E k \in 1 .. Len(ids) : ~L.locs[k].found THEN Outcome(C, L.ns, "notfound", 0)
  ELSE Outcome(ZeroAll(C, L.locs, 1), L.ns, "ok", Len(ids))

(* hashmap.fetch: the ids that are found, in call order *)
RECURSIVE FetchFrom(_, _, _, _)
FetchFrom(C, ns, ids, k) ==
  IF k > Len(ids) THEN <<>>
  ELSE LET r == FindR(C, ns, ids[k]) IN
       (IF r = {} THEN <<>> ELSE <<[id |-> ids[k], v |-> (CHOOSE c \in r : TRUE).v]>>) \o FetchFrom(C, ns, ids, k + 1)

\* the same lookup in the promised map
RECURSIVE MapFetch(_, _, _)
MapFetch(m, ids, k) ==
  IF k > Len(ids) THEN <<>>
  ELSE (IF ids[k] \in DOMAIN m THEN <<[id |-> ids[k], v |-> m[ids[k]]]>> ELSE <<>>) \o MapFetch(m, ids, k + 1)

RECURSIVE MapPut(_, _, _, _, _)
MapPut(m, ids, vals, k, n) ==
  IF k > n THEN m
  ELSE MapPut([x \in (DOMAIN m) \cup {ids[k]} |-> IF x = ids[k] THEN vals[k] ELSE m[x]], ids, vals, k + 1, n)

MapDel(m, D) == [x \in (DOMAIN m) \ D |-> m[x]]

Distinct(ids) == \A j, k \in 1 .. Len(ids) : j # k => ids[j] # ids[k]

-----------------------------------------------------------------------------
Init == /\ hashMod \in HashMods
        /\ cells = {} /\ nseg = 0 /\ amap = <<>> /\ known = {}
        /\ last = NoCall /\ stale = FALSE /\ hist = <<>> /\ wcase = NoCase

\* one mutating call: rs = outcome with the intended search, rc = outcome with the search as written
Step(op, ids, vals, batch, rs, rc) ==
  /\ \/ /\ cells' = rs.cells /\ nseg' = rs.nseg /\ stale' = stale
        /\ last' = [op |-> op, ids |-> ids, res |-> rs.res, found |-> <<>>,
                    pres |-> Distinct(ids) /\ ToSet(ids) \subseteq DOMAIN amap,
                    abs  |-> Distinct(ids) /\ ToSet(ids) \cap DOMAIN amap = {}]
        /\ amap' = IF op = "Remove" THEN (IF rs.res = "ok" THEN MapDel(amap, ToSet(ids)) ELSE amap)
                                    ELSE MapPut(amap, ids, vals, 1, rs.n)
     \/ /\ StaleSearch /\ rc # rs                                    \* finding branch
        /\ cells' = rc.cells /\ nseg' = rc.nseg /\ stale' = TRUE
        /\ last' = [op |-> op, ids |-> ids, res |-> rc.res, found |-> <<>>,
                    pres |-> Distinct(ids) /\ ToSet(ids) \subseteq DOMAIN amap,
                    abs  |-> Distinct(ids) /\ ToSet(ids) \cap DOMAIN amap = {}]
        /\ amap' = IF op = "Remove" THEN (IF rc.res = "ok" THEN MapDel(amap, ToSet(ids)) ELSE amap)
                                    ELSE MapPut(amap, ids, vals, 1, rc.n)
  /\ known' = known \cup ToSet(ids)
  /\ hist' = IF KeepHist THEN Append(hist, [op |-> op, ids |-> ids, vals |-> vals, batch |-> batch]) ELSE hist
  /\ UNCHANGED <<hashMod, wcase>>

\* Registry.Add(ids with payloads vals)
Add(ids, vals) ==
  /\ Len(ids) = Len(vals) /\ Len(ids) > 0
  /\ Step("Add", ids, vals, FALSE, AddFrom(FALSE, cells, nseg, ids, vals, 1), AddFrom(TRUE, cells, nseg, ids, vals, 1))

\* Registry.Update (batch = FALSE: one set per handle) / Registry.UpdateNoLocks (batch = TRUE)
Set(ids, vals, batch) ==
  /\ Len(ids) = Len(vals) /\ Len(ids) > 0
  /\ IF batch THEN Step("Set", ids, vals, TRUE, SetBatch(FALSE, cells, nseg, ids, vals), SetBatch(TRUE, cells, nseg, ids, vals))
              ELSE Step("Set", ids, vals, FALSE, SetFrom(FALSE, cells, nseg, ids, vals, 1), SetFrom(TRUE, cells, nseg, ids, vals, 1))

\* Registry.Remove(ids)
Remove(ids) ==
  /\ Len(ids) > 0
  /\ Step("Remove", ids, <<>>, TRUE, RemoveBatch(FALSE, cells, nseg, ids), RemoveBatch(TRUE, cells, nseg, ids))

\* Registry.Get(ids) with a cold cache: disk truth
Fetch(ids) ==
  /\ last' = [op |-> "Get", ids |-> ids, res |-> "ok", found |-> FetchFrom(cells, nseg, ids, 1), pres |-> FALSE, abs |-> FALSE]
  /\ known' = known \cup ToSet(ids)
  /\ UNCHANGED <<hashMod, cells, nseg, amap, stale, hist, wcase>>

-----------------------------------------------------------------------------
(* Exhaustive model: calls over the colliding ids of the configuration. *)
Absent(id)  == id \notin DOMAIN amap /\ ~\E c \in cells : c.id = id
NewVal(id)  == IF id \in DOMAIN amap THEN Vals \ {amap[id]} ELSE {MinOf(Vals)}
FirstVal    == MinOf(Vals)

Emit == KeepHist => PrintT(<<"PROG", ToJson([mod |-> hashMod, stale |-> stale', ops |-> hist'])>>)

More      == Len(hist) < MaxOps
MCAdd1    == More /\ \E id \in Ids : Absent(id) /\ Add(<<id>>, <<FirstVal>>) /\ Emit
MCAdd2    == More /\ \E a, b \in Ids : a # b /\ Absent(a) /\ Absent(b) /\ Add(<<a, b>>, <<FirstVal, FirstVal>>) /\ Emit
MCSet1    == More /\ \E id \in Ids : \E v \in NewVal(id) : Set(<<id>>, <<v>>, FALSE) /\ Emit
MCSet2    == More /\ \E a, b \in Ids : /\ a # b /\ {a, b} \subseteq DOMAIN amap
                                       /\ \E v \in NewVal(a) : Set(<<a, b>>, <<v, v>>, TRUE) /\ Emit
MCRemove1 == More /\ \E id \in Ids : Remove(<<id>>) /\ Emit
MCRemove2 == More /\ \E a, b \in Ids : a # b /\ {a, b} \subseteq DOMAIN amap /\ Remove(<<a, b>>) /\ Emit
MCGet     == \E id \in Ids : Fetch(<<id>>)

Next == MCAdd1 \/ MCAdd2 \/ MCSet1 \/ MCSet2 \/ MCRemove1 \/ MCRemove2 \/ MCGet

Spec == Init /\ [][Next]_vars

SegBound == nseg <= MaxSeg

\* id sets for the configurations (a .cfg file cannot write tuples): with SlotsPerBlock = K every lo < K, so
\* the ideal slot is the same in the shrunk model and in the real 66-slot block (whose other slots are kept full)
McIds4 == {<<2, 0>>, <<4, 0>>, <<6, 1>>, <<1, 0>>}                \* mod 1: all in block 0; mod 2: <<1,0>> alone in block 1
McIds5 == {<<2, 0>>, <<4, 0>>, <<6, 1>>, <<8, 2>>, <<1, 0>>}
McIds6 == {<<2, 0>>, <<4, 0>>, <<6, 0>>, <<8, 1>>, <<10, 2>>, <<1, 1>>}
NoIds  == {}
View == <<hashMod, cells, nseg, amap, stale>>

-----------------------------------------------------------------------------
(* C21: refinement to a map.  Checked on behaviours that did not use the finding branch. *)
FetchOne(id) == FetchFrom(cells, nseg, <<id>>, 1)

Universe == known \cup Ids
GetReturnsLastWritten ==
  ~stale => \A id \in Universe : FetchOne(id) = MapFetch(amap, <<id>>, 1)

RemovedNeverReappears ==
  ~stale => \A id \in Universe \ DOMAIN amap : FetchOne(id) = <<>> /\ ~\E c \in cells : c.id = id

AtMostOneSlotPerId ==
  ~stale => \A c, d \in cells : c.id = d.id => c = d

OneRecordPerSlot == Cardinality({<<c.s, c.b, c.i>> : c \in cells}) = Cardinality(cells)

(* The same refinement in a form that is cheap on the big states of trace validation: the records on disk are
   exactly the graph of the promised map.  FastFormEquivalent (checked in the exhaustive model, on every
   state, stale or not) ties it to the three literal statements above. *)
DiskIsMapBody == /\ Cardinality({c.id : c \in cells}) = Cardinality(cells)
                 /\ {<<c.id, c.v>> : c \in cells} = {<<x, amap[x]>> : x \in DOMAIN amap}
DiskIsMap == ~stale => DiskIsMapBody
FastFormEquivalent ==
  DiskIsMapBody <=> /\ \A id \in Universe : FetchOne(id) = MapFetch(amap, <<id>>, 1)
                    /\ \A id \in Universe \ DOMAIN amap : ~\E c \in cells : c.id = id
                    /\ \A c, d \in cells : c.id = d.id => c = d

CallResultsOf(st, l, m) ==
  st \/ /\ ((l.op = "Remove" /\ l.pres) => (l.res = "ok"))      \* removing present ids succeeds
        /\ ((l.op = "Add" /\ l.abs) => (l.res = "ok"))
        /\ ((l.op = "Set") => (l.res = "ok"))
        /\ ((l.op = "Get") => (l.found = MapFetch(m, l.ids, 1)))
CallResults == CallResultsOf(stale, last, amap)                        \* state form (trace validation)
CallResultsStep == [][CallResultsOf(stale', last', amap')]_vars        \* action form (exhaustive model: last is not in the VIEW)

TypeOK == /\ hashMod \in Nat \ {0} /\ nseg \in Nat /\ stale \in BOOLEAN
          /\ \A c \in cells : c.s \in 1 .. nseg /\ c.b = Blk(c.id) /\ c.i \in Slots
          /\ DOMAIN amap \subseteq known

-----------------------------------------------------------------------------
(* C24: edge-value handles x slot indexes.  The block under test belongs to a registry with hashMod = 1
   whose block 0 of segment 1 is full: slot j holds the record of BaseId(j) (ideal slot j) with the payload
   BaseHandle.  WriteSlot(i, h) is the update in place of that record with the edge-value handle h
   (registryMap.set -> updateFileBlockRegion): slot i holds h afterwards, every other slot is untouched.
   Handle field values are symbols ("min32", "max64", ...); the driver owns their numeric meaning.  *)
CONSTANTS EdgeIds, WriteIds, EdgeVers, EdgeStamps, CaseSlots

EdgeHandles(L, P) == [lid : L, a : P, b : P, act : BOOLEAN, ver : EdgeVers, ts : EdgeStamps, del : BOOLEAN]
BaseHandle == [lid |-> "slot", a |-> "pat", b |-> "max", act |-> TRUE, ver |-> "neg1", ts |-> "neg1", del |-> TRUE]   \* no zero byte
BaseId(j)  == <<1, j>>
SlotHandle(i) == (CHOOSE c \in AtPos(cells, 1, 0, i) : TRUE).v

\* the abstract effect of writing handle h over the record in slot i
WriteSlot(i, h) ==
  /\ AtPos(cells, 1, 0, i) # {}
  /\ cells' = Put(cells, [s |-> 1, b |-> 0, i |-> i], BaseId(i), h)
  /\ amap' = [amap EXCEPT ![BaseId(i)] = h]
  /\ wcase' = [kind |-> "write", slot |-> i, h |-> h, len |-> HandleSize, same |-> (SlotHandle(i) = h)]
  /\ UNCHANGED <<hashMod, nseg, known, last, stale, hist>>

\* encode h into a record of HandleSize bytes and decode it again
Codec(h) ==
  /\ wcase' = [kind |-> "codec", slot |-> 0, h |-> h, len |-> HandleSize, same |-> TRUE]
  /\ UNCHANGED <<hashMod, cells, nseg, amap, known, last, stale, hist>>

EmitCase == PrintT(<<"CASE", ToJson([kind |-> wcase'.kind, slot |-> wcase'.slot, h |-> wcase'.h])>>)

LayoutInit == /\ hashMod = 1 /\ nseg = 1
              /\ cells = {Cell(1, 0, j, BaseId(j), BaseHandle) : j \in Slots}
              /\ amap = [id \in {BaseId(j) : j \in Slots} |-> BaseHandle]
              /\ known = {BaseId(j) : j \in Slots}
              /\ last = NoCall /\ stale = FALSE /\ hist = <<>> /\ wcase = NoCase

\* exhaustive: every (slot, edge handle) pair and every edge handle through the codec, one step deep
LayoutNext == /\ wcase.kind = "none"
              /\ \/ \E i \in CaseSlots, h \in EdgeHandles({"slot"}, WriteIds) : WriteSlot(i, h) /\ EmitCase
                 \/ \E h \in EdgeHandles(EdgeIds, EdgeIds) : Codec(h) /\ EmitCase

LayoutSpec == LayoutInit /\ [][LayoutNext]_vars

\* a slot write changes slot i only (and with it the checksum, which covers all slots)
SlotIsolation ==
  [][wcase'.kind = "write" =>
       /\ \A c \in cells : c.i # wcase'.slot => c \in cells'
       /\ \A c \in cells' : c.i # wcase'.slot => c \in cells
       /\ AtPos(cells', 1, 0, wcase'.slot) = {Cell(1, 0, wcase'.slot, BaseId(wcase'.slot), wcase'.h)}]_vars
LayoutTypeOK == /\ \A c \in cells : c.s = 1 /\ c.b = 0 /\ c.i \in Slots /\ c.id = BaseId(c.i)
                /\ Cardinality(cells) = SlotsPerBlock
=============================================================================
