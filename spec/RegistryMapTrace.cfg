\* trace validation (C21).  The check regenerates this file with the layout constants it extracted from the
\* source of the tree under test; the values below are those of the pinned commit.
SPECIFICATION TraceSpec
CONSTANTS
  SlotsPerBlock = 66
  HandleSize = 62
  BlockSize = 4096
  CrcWidth = 4
  HashMods = {1}
  Ids <- NoIds
  Vals = {1}
  MaxOps = 0
  MaxSeg = 0
  StaleSearch = TRUE
  KeepHist = FALSE
  Observational = FALSE
  EdgeIds = {"nil"}
  WriteIds = {"nil"}
  EdgeVers = {"zero"}
  EdgeStamps = {"zero"}
  CaseSlots = {0}
INVARIANTS TypeOK DiskIsMap OneRecordPerSlot CallResults
CONSTRAINT HighWater
POSTCONDITION TraceAccepted
CHECK_DEADLOCK FALSE
