--------------------------- MODULE RegistryMapTrace ---------------------------
(* Trace validation for RegistryMap.  Every line of trace.ndjson is one call on the real registry
   (fs.NewRegistry: Add / Update / UpdateNoLocks / Remove / Get with a cold cache) together with what the raw
   projection of the segment files showed: the records that appeared (wrote), the records that vanished or were
   overwritten (erased), the number of segment files and the validity of every block checksum.  A line is
   accepted only if it is the effect the specification computes for that call from its own state, so the
   specification follows the disk slot by slot.  Steps that need the finding branch print a STALE line.
   C24 lines (Prepared / WriteSlot / Codec / ObserveBlock) are the slot-write and codec cases.  *)
EXTENDS RegistryMap

CONSTANT Observational   \* TRUE: second opinion, see the end of this module

VARIABLES l,        \* next trace line to consume
          stack     \* states saved by the tree walk of the driver (save flag of a call / Back)

Trace == ndJsonDeserialize("trace.ndjson")
tvars == <<vars, l, stack>>
Ev == Trace[l]

IsEv(e) == l <= Len(Trace) /\ Trace[l].ev = e /\ l' = l + 1

Blank == /\ hashMod = 1 /\ cells = {} /\ nseg = 0 /\ amap = <<>> /\ known = {}
         /\ last = NoCall /\ stale = FALSE /\ hist = <<>> /\ wcase = NoCase

TraceInit == l = 1 /\ TLCSet(1, 1) /\ Blank /\ stack = <<>>

TraceReset == /\ IsEv("Reset")
              /\ hashMod' = 1 /\ cells' = {} /\ nseg' = 0 /\ amap' = <<>> /\ known' = {}
              /\ last' = NoCall /\ stale' = FALSE /\ hist' = <<>> /\ wcase' = NoCase /\ stack' = <<>>

\* the registry the program starts from (empty, or a prepared one whose projection is taken as given)
TraceSetup == /\ IsEv("Setup") /\ cells = {} /\ nseg = 0 /\ last.op = "Init"
              /\ Ev.crcok
              /\ hashMod' = Ev.mod /\ nseg' = Ev.nseg
              /\ cells' = ToSet(Ev.cells)
              /\ Cardinality({c.id : c \in cells'}) = Cardinality(cells')
              /\ amap' = [x \in {c.id : c \in cells'} |-> (CHOOSE c \in cells' : c.id = x).v]
              /\ known' = {c.id : c \in cells'}
              /\ UNCHANGED <<last, stale, hist, wcase, stack>>

\* the observed effect is the computed effect
Matches == /\ last'.res = Ev.res
           /\ cells' \ cells = ToSet(Ev.wrote)
           /\ cells \ cells' = ToSet(Ev.erased)
           /\ nseg' = Ev.nseg
           /\ Ev.crcok
Flag == (stale' /\ ~stale) => PrintT(<<"STALE", l, Ev.ev>>)

\* save = TRUE: the driver saved the segment files before this call (tree walk); so does the specification
Saved == [hashMod |-> hashMod, cells |-> cells, nseg |-> nseg, amap |-> amap, known |-> known, stale |-> stale]
Push  == stack' = IF Ev.save THEN <<Saved>> \o stack ELSE stack

TraceAdd     == ~Observational /\ IsEv("Add") /\ Add(Ev.ids, Ev.vals) /\ Matches /\ Flag /\ Push
TraceSet     == ~Observational /\ IsEv("Set") /\ Set(Ev.ids, Ev.vals, Ev.batch) /\ Matches /\ Flag /\ Push
TraceRemove  == ~Observational /\ IsEv("Remove") /\ Remove(Ev.ids) /\ Matches /\ Flag /\ Push
TraceGet     == ~Observational /\ IsEv("Get") /\ Fetch(Ev.ids) /\ Ev.res = "ok" /\ last'.found = Ev.found /\ UNCHANGED stack
TraceObserve == /\ IsEv("Observe") /\ ToSet(Ev.cells) = cells /\ Ev.nseg = nseg /\ Ev.crcok
                /\ UNCHANGED <<vars, stack>>

\* the driver walks a prefix tree of programs: it saves the segment files before a call and puts them back
\* (with a fresh registry object on top) when it backs up; the specification does the same with its state
TraceBack == /\ IsEv("Back") /\ stack # <<>>
             /\ LET t == Head(stack) IN
                  /\ Ev.n = Cardinality(t.cells) /\ Ev.nseg = t.nseg /\ Ev.crcok
                  /\ hashMod' = t.hashMod /\ cells' = t.cells /\ nseg' = t.nseg /\ amap' = t.amap
                  /\ known' = t.known /\ stale' = t.stale
             /\ last' = [NoCall EXCEPT !.op = "Back"]
             /\ stack' = Tail(stack)
             /\ UNCHANGED <<hist, wcase>>

-----------------------------------------------------------------------------
(* C24 *)
TracePrepared ==
  /\ IsEv("Prepared") /\ cells = {} /\ nseg = 0
  /\ Ev.measured = SlotsPerBlock              \* a block holds exactly handlesPerBlock records before it overflows
  /\ Ev.crcvalid
  /\ \A j \in Slots : Ev.block[j + 1] = BaseHandle
  /\ hashMod' = 1 /\ nseg' = 1
  /\ cells' = {Cell(1, 0, j, BaseId(j), BaseHandle) : j \in Slots}
  /\ amap' = [id \in {BaseId(j) : j \in Slots} |-> BaseHandle]
  /\ known' = {BaseId(j) : j \in Slots}
  /\ UNCHANGED <<last, stale, hist, wcase, stack>>

TraceWriteSlot ==
  /\ IsEv("WriteSlot") /\ WriteSlot(Ev.slot, Ev.h)
  /\ Ev.res = "ok"
  /\ Ev.len = wcase'.len                        \* the record has the fixed size
  /\ Ev.back = Ev.h                             \* slot i decodes to the handle written, and holds the codec's bytes
  /\ ToSet(Ev.changed) = IF wcase'.same THEN {} ELSE {Ev.slot}    \* no other slot changed
  /\ ~Ev.outside                                \* no byte outside slots and checksum changed
  /\ Ev.crcvalid                                \* the checksum is that of the new block
  /\ (wcase'.same => ~Ev.crcchanged)
  /\ Ev.nseg = 2                                \* the write went in place, no further segment file appeared
  /\ UNCHANGED stack

TraceCodec ==
  /\ IsEv("Codec") /\ Codec(Ev.h)
  /\ Ev.res = "ok" /\ Ev.len = wcase'.len /\ Ev.back = Ev.h
  /\ UNCHANGED stack

\* the record layout measured on the real codec: the fields tile the record in declaration order, without gaps
FieldsTile(fs) ==
  /\ Len(fs) > 0
  /\ \A k \in 1 .. Len(fs) : ~fs[k].gaps /\ fs[k].len > 0
  /\ fs[1].off = 0
  /\ \A k \in 1 .. (Len(fs) - 1) : fs[k + 1].off = fs[k].off + fs[k].len
  /\ fs[Len(fs)].off + fs[Len(fs)].len = HandleSize
TraceLayout ==
  /\ IsEv("Layout") /\ FieldsTile(Ev.fields) /\ Ev.len = HandleSize
  /\ UNCHANGED <<vars, stack>>

TraceObserveBlock ==
  /\ IsEv("ObserveBlock") /\ Ev.crcvalid
  /\ \A c \in cells : Ev.block[c.i + 1] = c.v
  /\ UNCHANGED <<vars, stack>>

-----------------------------------------------------------------------------
(* Second opinion for a trace the placement model rejects (Observational = TRUE): the disk is taken as the
   projector reported it, only the statements of C21 are judged: call results, lookups against the promised map,
   every present id in exactly one slot with its last written handle, removed ids nowhere.  A trace accepted here
   but not above means the tree under test places records differently from RegistryMap (model out of date),
   not that the property is broken.  *)
Written == {c.id : c \in ToSet(Ev.wrote)}
RECURSIVE Lead(_, _)
Lead(ids, k) == IF k <= Len(ids) /\ ids[k] \in Written THEN Lead(ids, k + 1) ELSE k - 1   \* leading ids that were written

ObsCall(op) ==
  /\ Observational /\ IsEv(op) /\ Push
  /\ cells' = (cells \ ToSet(Ev.erased)) \cup ToSet(Ev.wrote)
  /\ nseg' = Ev.nseg /\ Ev.crcok
  /\ known' = known \cup ToSet(Ev.ids)
  /\ last' = [op |-> op, ids |-> Ev.ids, res |-> Ev.res, found |-> <<>>,
              pres |-> Distinct(Ev.ids) /\ ToSet(Ev.ids) \subseteq DOMAIN amap,
              abs  |-> Distinct(Ev.ids) /\ ToSet(Ev.ids) \cap DOMAIN amap = {}]
  /\ amap' = IF op = "Remove" THEN (IF Ev.res = "ok" THEN MapDel(amap, ToSet(Ev.ids)) ELSE amap)
             ELSE MapPut(amap, Ev.ids, Ev.vals, 1, IF Ev.res = "ok" THEN Len(Ev.ids) ELSE Lead(Ev.ids, 1))
  /\ UNCHANGED <<hashMod, stale, hist, wcase>>
TraceObsCall == ObsCall("Add") \/ ObsCall("Set") \/ ObsCall("Remove")
TraceObsGet ==
  /\ Observational /\ IsEv("Get") /\ Ev.res = "ok"
  /\ last' = [op |-> "Get", ids |-> Ev.ids, res |-> "ok", found |-> Ev.found, pres |-> FALSE, abs |-> FALSE]
  /\ known' = known \cup ToSet(Ev.ids)
  /\ UNCHANGED <<hashMod, cells, nseg, amap, stale, hist, wcase, stack>>

ObsMap == /\ \A x \in DOMAIN amap : Cardinality({c \in cells : c.id = x}) = 1
                                    /\ \A c \in cells : c.id = x => c.v = amap[x]
          /\ \A x \in known \ DOMAIN amap : ~\E c \in cells : c.id = x
ObsResults == CallResultsOf(FALSE, last, amap)

TraceNext == \/ TraceObsCall \/ TraceObsGet \/ TraceReset \/ TraceSetup \/ TraceBack \/ TraceAdd \/ TraceSet \/ TraceRemove \/ TraceGet \/ TraceObserve
             \/ TraceLayout \/ TracePrepared \/ TraceWriteSlot \/ TraceCodec \/ TraceObserveBlock

TraceSpec == TraceInit /\ [][TraceNext]_tvars

HighWater == IF l > TLCGet(1) THEN TLCSet(1, l) ELSE TRUE
TraceAccepted == /\ PrintT(<<"HWM", TLCGet(1) - 1>>)
                 /\ TLCGet(1) - 1 = Len(Trace)
=============================================================================
