\* (the check regenerates this file with the constants it extracted from the source of the tree under test;
\* the values below are those of the pinned commit, quick tier edge sets)
\* C24: every (slot, edge handle) write and every edge handle through the codec, with the layout constants of the source
SPECIFICATION LayoutSpec
CONSTANTS
  SlotsPerBlock = 66
  HandleSize = 62
  BlockSize = 4096
  CrcWidth = 4
  HashMods = {1}
  Ids <- NoIds
  Vals = {1}
  MaxOps = 0
  MaxSeg = 1
  StaleSearch = FALSE
  KeepHist = FALSE
  EdgeIds = {"nil", "min", "max", "pat"}
  WriteIds = {"nil", "max"}
  EdgeVers = {"min32", "neg1", "max32"}
  EdgeStamps = {"min64", "neg1", "max64"}
  CaseSlots = {0, 1, 2, 3, 4, 5, 6, 7, 8, 9, 10, 11, 12, 13, 14, 15, 16, 17, 18, 19, 20, 21, 22, 23, 24, 25, 26, 27, 28, 29, 30, 31, 32, 33, 34, 35, 36, 37, 38, 39, 40, 41, 42, 43, 44, 45, 46, 47, 48, 49, 50, 51, 52, 53, 54, 55, 56, 57, 58, 59, 60, 61, 62, 63, 64, 65}
INVARIANTS LayoutTypeOK OneRecordPerSlot
PROPERTIES SlotIsolation
CHECK_DEADLOCK FALSE
