\* exhaustive model of the registry as a map (C21): tiny blocks, colliding ids, both hash moduli.
\* StaleSearch = TRUE: the finding branch (search for writing as coded today) is available; the refinement
\* invariants are evaluated on the states no finding step led to.
SPECIFICATION Spec
CONSTANTS
  SlotsPerBlock = 2
  HandleSize = 62
  BlockSize = 4096
  CrcWidth = 4
  HashMods = {1, 2}
  Ids <- McIds4
  Vals = {1, 2}
  MaxOps = 4
  MaxSeg = 2
  StaleSearch = TRUE
  KeepHist = TRUE
  EdgeIds = {"nil"}
  WriteIds = {"nil"}
  EdgeVers = {"zero"}
  EdgeStamps = {"zero"}
  CaseSlots = {0}
VIEW View
CONSTRAINT SegBound
INVARIANTS TypeOK GetReturnsLastWritten RemovedNeverReappears AtMostOneSlotPerId OneRecordPerSlot DiskIsMap FastFormEquivalent
PROPERTIES CallResultsStep
CHECK_DEADLOCK FALSE
