---------------------------- MODULE Replication ----------------------------
(* Active/passive replication of SOP's store catalogue and registry (property C27).

   Code modelled (all under /repo):
     fs/replicationtracker.go                    NewReplicationTracker, handleFailedToReplicate, failover,
                                                 readStatusFromHomeFolder, syncWithL2Cache, logCommitChanges
     fs/replicationtracker.reinstatefaileddrives.go   startLoggingCommitChanges, copyStores, fastForward, turnOnReplication
     fs/storerepository.go (Add, Remove, Replicate), fs/storerepository.copier.go (CopyToPassiveFolders),
     fs/fileiowithreplication.go (replicate), fs/registry.go (Replicate), common phase2Commit (replication tasks),
     infs/managebtree.go (RemoveBtree, ReinstateFailedDrives)

   Abstract state: two stores base folders, each a catalogue (store list + store info per store folder) and one
   registry (set of handle records) per store folder; the process-wide replication details (GlobalReplicationDetails),
   their L2-cache copy, the replstat.txt file of each folder, per-transaction snapshots of the details (taken by
   NewReplicationTracker when the transaction is created), pending commit-change logs, the L2 copy of store infos
   (per folder, because cache keys carry the base folder), the progress of ReinstateFailedDrives.

   Every place where the code at the pinned commit deviates from the design the property describes is a NAMED
   finding; the deviating branch is enabled only when its name is in the constant Findings and records itself in
   `used`.  With Findings = {} the module is the intended design.                                             *)
EXTENDS Naturals, Sequences, FiniteSets, TLC, Json

CONSTANTS Stores,      \* store names
          Txns,        \* transaction identifiers
          Findings,    \* enabled finding names (subset of FindingNames)
          NoR          \* the `r` field of an absent store info

FindingNames == {"copyReadsPassive",     \* CopyToPassiveFolders looks the store info up through the flipped tracker
                 "staleSnapshot",        \* a transaction replicates/logs by the details it copied when it was created
                 "logFlagLost",          \* isEqual ignores LogCommitChanges: the L2 copy never carries the flag
                 "ffNotIdempotent",      \* fastForward applies logs blindly: re-adding a copied handle is an error,
                                         \* an older logged record overwrites a newer replicated one
                 "createFailsOnPassive", \* a passive failure in StoreRepository.Add fails the creation
                 "failoverNotDurable",   \* failover writes the old toggler; a fresh process may pick the old folder
                 "copyFailsOnDroppedStore"} \* a store dropped while the copy runs makes copyStores fail

VARIABLES fold,     \* [1..2 -> [list, info, reg]]
          mem,      \* [failed, act, logging]            GlobalReplicationDetails of the driver process
          l2,       \* [failed, act, logging]            copy in the L2 cache
          rs,       \* [1..2 -> [present, failed, act, logging]]   replstat.txt per folder
          newer,    \* 0, 1, 2: folder whose replstat.txt has the newest mtime
          txn,      \* [Txns -> [st, failed, act, logging, created]]
          logs,     \* sequence of change sets (commit-change logs, oldest first)
          cinfo,    \* [1..2 -> [Stores -> info]]        store infos in the L2 cache, keyed by base folder
          rein,     \* [pc, todo]                        ReinstateFailedDrives in progress
          content,  \* [Stores -> set of [k, v]]         committed logical content
          used      \* findings this behaviour went through

vars == <<fold, mem, l2, rs, newer, txn, logs, cinfo, rein, content, used>>

Other(i)  == 3 - i
NoInfo    == [c |-> 0, r |-> NoR]
Lids(R)   == {h.lid : h \in R}
EmptyFold == [list |-> {}, info |-> [s \in Stores |-> NoInfo], reg |-> [s \in Stores |-> {}]]
NoRS      == [present |-> FALSE, failed |-> FALSE, act |-> 1, logging |-> FALSE]
Det(f, a, l) == [failed |-> f, act |-> a, logging |-> l]
NoTxn     == [st |-> "idle", failed |-> FALSE, act |-> 1, logging |-> FALSE, created |-> {}]
Has(f)    == f \in Findings
Use(f, c) == IF c THEN used \cup {f} ELSE used

Init == /\ fold = [i \in 1..2 |-> EmptyFold]
        /\ mem = Det(FALSE, 1, FALSE) /\ l2 = Det(FALSE, 1, FALSE)
        /\ rs = [i \in 1..2 |-> NoRS] /\ newer = 0
        /\ txn = [t \in Txns |-> NoTxn]
        /\ logs = <<>> /\ cinfo = [i \in 1..2 |-> [s \in Stores |-> NoInfo]]
        /\ rein = [pc |-> "idle", todo |-> <<>>]
        /\ content = [s \in Stores |-> {}] /\ used = {}

-----------------------------------------------------------------------------
(* Registry arithmetic.  A handle record is [lid, img]: logical id, full image.  A store info is
   [c, r]: count, everything else (timestamp included); a commit rewrites (and replicates, and logs) the info of a
   store only when its count changed: field ic of a change.  A change c = [s, info, add, set, rem]: new store info and the
   handle records that appeared, changed, vanished in the active registry of store s.                          *)
ApplyActive(R, c) == {h \in R : h.lid \notin Lids(c.set) \cup Lids(c.rem)} \cup c.add \cup c.set

\* registryOnDisk.Replicate on the passive registry: add must find no record, remove must find one
Conflict(R, c) == \/ Lids(c.add) \cap Lids(R) # {}
                  \/ ~ (Lids(c.rem) \subseteq Lids(R))
\* result when there is no conflict; also the idempotent ("merge by logical id") application of the design
ApplyPassive(R, c) == {h \in R : h.lid \notin Lids(c.add) \cup Lids(c.set) \cup Lids(c.rem)} \cup c.add \cup c.set

SetStore(f, s, i, R) == [f EXCEPT !.info[s] = i, !.reg[s] = R]

\* apply a set of changes (different stores) to a folder
ApplyAll(f, chs, passive) ==
  [f EXCEPT !.info = [s \in Stores |-> IF \E c \in chs : c.s = s /\ c.ic THEN (CHOOSE c \in chs : c.s = s).info ELSE f.info[s]],
            !.reg  = [s \in Stores |-> IF \E c \in chs : c.s = s
                                      THEN LET c == CHOOSE c \in chs : c.s = s
                                           IN IF passive THEN ApplyPassive(f.reg[s], c) ELSE ApplyActive(f.reg[s], c)
                                      ELSE f.reg[s]]]
RemoveStores(f, S) == [f EXCEPT !.list = @ \ S, !.info = [s \in Stores |-> IF s \in S THEN NoInfo ELSE @[s]],
                                !.reg = [s \in Stores |-> IF s \in S THEN {} ELSE @[s]]]
AnyConflict(f, chs) == \E c \in chs : Conflict(f.reg[c.s], c)

\* logical content
PutDel(C, w) == {e \in C : e.k \notin {p.k : p \in w.put} \cup w.del} \cup w.put
ApplyWork(ws) == [s \in Stores |-> IF \E w \in ws : w.s = s THEN PutDel(content[s], CHOOSE w \in ws : w.s = s) ELSE content[s]]

\* NewReplicationTracker pulls the L2 copy into the process-wide details
Pulled == l2
\* what a tracker created now copies
Cur == Pulled
Snap(t) == Det(txn[t].failed, txn[t].act, txn[t].logging)
Snaps(t) == {Cur} \cup (IF Has("staleSnapshot") THEN {Snap(t)} ELSE {})

WriteRS(i, d) == /\ rs' = [rs EXCEPT ![i] = [present |-> TRUE, failed |-> d.failed, act |-> d.act, logging |-> d.logging]]
                 /\ newer' = i

\* What a fresh process decides from the two replstat.txt files (readStatusFromHomeFolder): when the first
\* folder has no file the toggler read from the second one is inverted, otherwise the newer file is taken as is.
FreshOf(r, nw) ==
  IF ~r[1].present
  THEN IF r[2].present THEN [act |-> Other(r[2].act), failed |-> r[2].failed] ELSE [act |-> 1, failed |-> FALSE]
  ELSE IF r[2].present /\ nw = 2 THEN [act |-> r[2].act, failed |-> r[2].failed]
       ELSE [act |-> r[1].act, failed |-> r[1].failed]
FreshCode == FreshOf(rs, newer)
\* after a write of a status file: does a fresh process still choose the folder the running process uses?
\* (to be conjoined after rs', newer', mem' are determined; u = the other findings used by the step)
StatusWritten(u) ==
  LET agrees == FreshOf(rs', newer').act = mem'.act IN
  /\ agrees \/ Has("failoverNotDurable")
  /\ used' = IF agrees THEN u ELSE u \cup {"failoverNotDurable"}

-----------------------------------------------------------------------------
(* Transactions *)
Begin(t) ==
  /\ txn[t].st = "idle"
  /\ mem' = Pulled
  /\ txn' = [txn EXCEPT ![t] = [st |-> "open", failed |-> Pulled.failed, act |-> Pulled.act, logging |-> Pulled.logging,
                                 created |-> {}]]
  /\ UNCHANGED <<fold, l2, rs, newer, logs, cinfo, rein, content, used>>

\* NewBtreeWithReplication of a store that does not exist: StoreRepository.Add (+ fileIO.replicate, which does not
\* look at FailedToReplicate).  pf: "none" or the passive-side obstacle ("list-dir", "store-file").
Create(t, sn, s, info, ok, pf) ==
  /\ txn[t].st = "open"
  /\ sn \in Snaps(t)
  /\   LET a == sn.act  p == Other(sn.act) IN
       /\ s \notin fold[a].list
       /\ \/ /\ pf = "none" /\ ok
             /\ fold' = [fold EXCEPT ![a] = [@ EXCEPT !.list = @ \cup {s}, !.info[s] = info, !.reg[s] = {}],
                                     ![p] = [@ EXCEPT !.list = fold[a].list \cup {s}, !.info[s] = info]]
             /\ cinfo' = [cinfo EXCEPT ![a][s] = info]
             /\ used' = Use("staleSnapshot", sn # Cur)
             /\ txn' = [txn EXCEPT ![t].created = @ \cup {s}]
             /\ UNCHANGED <<mem, l2, rs, newer>>
          \/ \* design: the passive failure turns replication off, the creation stands
             /\ pf # "none" /\ ok
             /\ fold' = [fold EXCEPT ![a] = [@ EXCEPT !.list = @ \cup {s}, !.info[s] = info, !.reg[s] = {}]]
             /\ cinfo' = [cinfo EXCEPT ![a][s] = info]
             /\ mem' = Det(TRUE, a, Pulled.logging) /\ l2' = mem'
             /\ WriteRS(a, mem')
             /\ StatusWritten(Use("staleSnapshot", sn # Cur))
             /\ txn' = [txn EXCEPT ![t].created = @ \cup {s}]
          \/ \* code: Add returns the error, NewBtree removes the store again and rolls the transaction back, which
             \* also removes (on both sides) every store the transaction had created before
             /\ Has("createFailsOnPassive") /\ pf # "none" /\ ~ok
             /\ LET cr == txn[t].created
                    na == RemoveStores(fold[a], cr)
                    np == RemoveStores(fold[p], cr \cup {s})
                IN fold' = [fold EXCEPT ![a] = na,
                                        ![p] = [np EXCEPT !.list = IF pf = "store-file" THEN na.list ELSE fold[p].list]]
             /\ cinfo' = [cinfo EXCEPT ![a] = [x \in Stores |-> IF x \in txn[t].created THEN NoInfo ELSE @[x]]]
             /\ txn' = [txn EXCEPT ![t].st = "done"]
             /\ used' = used \cup ({"createFailsOnPassive"} \cup IF sn # Cur THEN {"staleSnapshot"} ELSE {})
             /\ UNCHANGED <<mem, l2, rs, newer>>
  /\ UNCHANGED <<logs, rein, content>>

(* Commit.  chs: set of changes (one per touched store) of the active registry/catalogue, ws: logical work,
   pf/hit: passive obstacle armed ("none", "info", "reg") and whether the replication path would run into it,
   pafter: passive folder after the commit (used only when a passive write failed: the result of a half-done
   replication is not specified).  A commit is never affected by the passive side: ok is always TRUE.          *)
Commit(t, sn, chs, ws, ok, pf, hit, pafter) ==
  /\ txn[t].st = "open" /\ ok
  /\ sn \in Snaps(t)
  /\   LET a == sn.act  p == Other(sn.act)
           attempt == ~sn.failed
           \* a passive write fails: injected obstacle, add of a present / removal of an absent handle, or the
           \* transaction still writes to a drive that is already marked failed (whatever state that drive is in)
           broken  == attempt /\ ((pf # "none" /\ hit) \/ AnyConflict(fold[p], chs) \/ Pulled.failed)
       IN
       /\ \A c \in chs : c.s \in fold[a].list
       /\ IF broken
          THEN \* handleFailedToReplicate: pull, set the flag, persist it in the active folder, push
               /\ fold' = [fold EXCEPT ![a] = ApplyAll(@, chs, FALSE), ![p] = pafter]
               /\ IF Pulled.failed
                  THEN mem' \in {mem, Pulled} /\ UNCHANGED <<l2, rs, newer>> /\ used' = Use("staleSnapshot", sn # Cur)
                  ELSE /\ mem' = Det(TRUE, Pulled.act, Pulled.logging) /\ l2' = mem'
                       /\ WriteRS(a, Det(TRUE, sn.act, sn.logging))
                       /\ StatusWritten(Use("staleSnapshot", sn # Cur))
          ELSE /\ fold' = [fold EXCEPT ![a] = ApplyAll(@, chs, FALSE),
                                       ![p] = IF attempt THEN ApplyAll(@, chs, TRUE) ELSE @]
               /\ UNCHANGED <<mem, l2, rs, newer>> /\ used' = Use("staleSnapshot", sn # Cur)
       /\ logs' = IF sn.logging THEN Append(logs, chs) ELSE logs
       /\ cinfo' = [cinfo EXCEPT ![a] = [s \in Stores |-> IF \E c \in chs : c.s = s
                                                            THEN (CHOOSE c \in chs : c.s = s).info ELSE @[s]]]
  /\ content' = ApplyWork(ws)
  /\ txn' = [txn EXCEPT ![t].st = "done"]
  /\ UNCHANGED rein

\* infs.RemoveBtree: a fresh tracker; the store folder (info + registry) goes on both sides, the passive store
\* list is overwritten with the active one (an obstacle on the passive list is only logged).
Drop(s, ok, pf) ==
  /\ ok
  /\ LET a == Pulled.act  p == Other(Pulled.act) IN
     /\ fold' = [fold EXCEPT ![a] = [@ EXCEPT !.list = @ \ {s}, !.info[s] = NoInfo, !.reg[s] = {}],
                             ![p] = [@ EXCEPT !.list = IF pf = "none" THEN fold[a].list \ {s} ELSE @,
                                              !.info[s] = NoInfo, !.reg[s] = {}]]
     /\ cinfo' = [cinfo EXCEPT ![a][s] = NoInfo]
  /\ mem' = Pulled
  /\ content' = [content EXCEPT ![s] = {}]
  /\ UNCHANGED <<l2, rs, newer, txn, logs, rein, used>>

\* the failed passive drive is replaced by an empty one (environment)
Wipe ==
  /\ mem.failed
  /\ UNCHANGED <<mem, l2, txn, logs, cinfo, rein, content>>
  /\ LET p == Other(mem.act) IN
     /\ fold' = [fold EXCEPT ![p] = EmptyFold]
     /\ rs' = [rs EXCEPT ![p] = NoRS]
     /\ newer' = IF newer = p THEN (IF rs[mem.act].present THEN mem.act ELSE 0) ELSE newer
  /\ StatusWritten(used)

\* fs.TriggerFailover.  Nothing happens when replication is already off (the passive side is stale).  The status
\* file goes into the new active folder with the toggler as it was BEFORE the switch; readStatusFromHomeFolder
\* undoes that only when the old active folder has no status file (StatusWritten records when it does not).
Failover(ok) ==
  /\ ok
  /\ IF Pulled.failed
     THEN mem' = Pulled /\ UNCHANGED <<l2, rs, newer, used>>
     ELSE LET o == Pulled.act  n == Other(Pulled.act) IN
          /\ mem' = Det(TRUE, n, Pulled.logging) /\ l2' = mem'
          /\ WriteRS(n, Det(TRUE, o, Pulled.logging)) /\ StatusWritten(used)
  /\ UNCHANGED <<fold, txn, logs, cinfo, rein, content>>

-----------------------------------------------------------------------------
(* ReinstateFailedDrives *)
ReinBegin ==
  /\ rein.pc = "idle" /\ Pulled.failed
  /\ mem' = Pulled
  /\ rein' = [pc |-> "begun", todo |-> <<>>]
  /\ UNCHANGED <<fold, l2, rs, newer, txn, logs, cinfo, content, used>>

\* refused when replication is not marked failed
ReinRefused ==
  /\ rein.pc = "idle" /\ ~Pulled.failed
  /\ mem' = Pulled
  /\ UNCHANGED <<fold, l2, rs, newer, txn, logs, cinfo, rein, content, used>>

ReinStartLog ==
  /\ rein.pc = "begun"
  /\ mem' = Det(mem.failed, mem.act, TRUE)
  /\ WriteRS(mem.act, mem')
  /\ \/ l2' = mem' /\ StatusWritten(used)
     \/ Has("logFlagLost") /\ l2.failed = mem.failed /\ l2.act = mem.act /\ ~l2.logging
        /\ UNCHANGED l2 /\ StatusWritten(used \cup {"logFlagLost"})
  /\ rein' = [rein EXCEPT !.pc = "logging"]
  /\ UNCHANGED <<fold, txn, logs, cinfo, content>>

\* CopyToPassiveFolders: the store list first ...
ReinCopyList(order) ==
  /\ rein.pc = "logging"
  /\ Len(order) = Cardinality(fold[mem.act].list) /\ {order[i] : i \in 1..Len(order)} = fold[mem.act].list
  /\ fold' = [fold EXCEPT ![Other(mem.act)].list = fold[mem.act].list]
  /\ rein' = [pc |-> IF order = <<>> THEN "copied" ELSE "copying", todo |-> order]
  /\ UNCHANGED <<mem, l2, rs, newer, txn, logs, cinfo, content, used>>

\* ... then store by store: store info and registry segment files
ReinCopyStore(s) ==
  /\ rein.pc = "copying" /\ rein.todo # <<>> /\ s = Head(rein.todo)
  /\ LET a == mem.act  p == Other(mem.act)
         ideal == IF s \in fold[a].list THEN SetStore(fold[p], s, fold[a].info[s], fold[a].reg[s]) ELSE fold[p]
         \* code: sr.Get runs with the toggler flipped: L2 key and storeinfo.txt of the PASSIVE folder; a store
         \* without passive info is skipped ("deleted concurrently"), otherwise that info is written back
         seen  == IF cinfo[p][s] # NoInfo THEN cinfo[p][s] ELSE fold[p].info[s]
         code  == IF seen = NoInfo THEN fold[p] ELSE SetStore(fold[p], s, seen, fold[a].reg[s])
         \* the info comes through the L2 cache: a transaction that committed into this folder with the tracker of
         \* another era (stale snapshot) has left the cache entry behind the file
         cached == IF s \in fold[a].list /\ cinfo[a][s] # NoInfo THEN SetStore(fold[p], s, cinfo[a][s], fold[a].reg[s]) ELSE ideal
     IN \/ fold' = [fold EXCEPT ![p] = ideal] /\ UNCHANGED <<cinfo, used>>
        \/ /\ Has("staleSnapshot") /\ cached # ideal
           /\ fold' = [fold EXCEPT ![p] = cached] /\ UNCHANGED cinfo
           /\ used' = used \cup {"staleSnapshot"}
        \/ /\ Has("copyReadsPassive") /\ code # ideal
           /\ fold' = [fold EXCEPT ![p] = code]
           /\ cinfo' = [cinfo EXCEPT ![p][s] = seen]
           /\ used' = used \cup {"copyReadsPassive"}
  /\ rein' = [rein EXCEPT !.todo = Tail(@), !.pc = IF Len(rein.todo) = 1 THEN "copied" ELSE @]
  /\ UNCHANGED <<mem, l2, rs, newer, txn, logs, content>>

\* code: copyFilesByExtension on the folder of a store that was dropped after the list was read fails the
\* whole ReinstateFailedDrives (the design skips the store)
ReinCopyFails(pafter) ==
  /\ Has("copyFailsOnDroppedStore")
  /\ rein.pc = "copying" /\ \E i \in 1..Len(rein.todo) : rein.todo[i] \notin fold[mem.act].list
  /\ fold' = [fold EXCEPT ![Other(mem.act)] = pafter]
  /\ rein' = [pc |-> "idle", todo |-> <<>>]
  /\ used' = used \cup {"copyFailsOnDroppedStore"}
  /\ UNCHANGED <<mem, l2, rs, newer, txn, logs, cinfo, content>>

\* fastForward: every pending log, oldest first, applied to the passive side; store infos carry the cached count
Patched(cs) == {[c EXCEPT !.info.c = IF cinfo[mem.act][c.s] # NoInfo THEN cinfo[mem.act][c.s].c ELSE c.info.c] : c \in cs}
\* code: Replicate of store infos and registry changes exactly as logged
RECURSIVE FFBlind(_, _)
FFBlind(f, ls) == IF ls = <<>> THEN f ELSE FFBlind(ApplyAll(f, Patched(Head(ls)), TRUE), Tail(ls))
\* design: a log names the records that changed; their current state is taken from the active side, which makes
\* the step idempotent and independent of what replication has meanwhile written
Resync(f, chs) ==
  LET act == fold[mem.act] IN
  [f EXCEPT !.info = [s \in Stores |-> IF (\E c \in chs : c.s = s) /\ s \in act.list THEN act.info[s] ELSE f.info[s]],
            !.reg  = [s \in Stores |-> IF \E c \in chs : c.s = s
                                      THEN LET c == CHOOSE c \in chs : c.s = s
                                               L == Lids(c.add) \cup Lids(c.set) \cup Lids(c.rem)
                                           IN {g \in f.reg[s] : g.lid \notin L} \cup {g \in act.reg[s] : g.lid \in L}
                                      ELSE f.reg[s]]]
RECURSIVE FFMerge(_, _)
FFMerge(f, ls) == IF ls = <<>> THEN f ELSE FFMerge(Resync(f, Head(ls)), Tail(ls))

RECURSIVE FFConflict(_, _)
FFConflict(f, ls) ==
  IF ls = <<>> THEN FALSE
  ELSE AnyConflict(f, Head(ls)) \/ FFConflict(ApplyAll(f, Head(ls), TRUE), Tail(ls))

ReinFF(round) ==
  /\ \/ round = 1 /\ rein.pc = "copied" /\ rein' = [rein EXCEPT !.pc = "ffdone"]
     \/ round = 2 /\ rein.pc = "on" /\ rein' = [rein EXCEPT !.pc = "ffdone2"]
  /\ LET p == Other(mem.act)  ideal == FFMerge(fold[p], logs)  blind == FFBlind(fold[p], logs) IN
     \/ fold' = [fold EXCEPT ![p] = ideal] /\ UNCHANGED used
     \/ /\ Has("ffNotIdempotent") /\ ~FFConflict(fold[p], logs) /\ blind # ideal
        /\ fold' = [fold EXCEPT ![p] = blind] /\ used' = used \cup {"ffNotIdempotent"}
  /\ logs' = <<>>
  /\ UNCHANGED <<mem, l2, rs, newer, txn, cinfo, content>>

\* code: a log that adds a handle the copy already brought over (or removes one the passive side never had)
\* makes Replicate fail; ReinstateFailedDrives returns the error, the log stays, replication stays off.
\* the logs before the first one that cannot be applied are applied and deleted
RECURSIVE FFRemain(_, _)
FFRemain(f, ls) ==
  IF ls = <<>> THEN <<>>
  ELSE IF AnyConflict(f, Head(ls)) THEN ls ELSE FFRemain(ApplyAll(f, Patched(Head(ls)), TRUE), Tail(ls))

ReinFFFails(phase, pafter) ==
  /\ Has("ffNotIdempotent")
  /\ \/ phase = "ff" /\ rein.pc = "copied"
     \/ phase = "ff2" /\ rein.pc = "on"
  /\ FFConflict(fold[Other(mem.act)], logs)
  /\ fold' = [fold EXCEPT ![Other(mem.act)] = pafter]
  /\ logs' = FFRemain(fold[Other(mem.act)], logs)
  /\ rein' = [pc |-> "idle", todo |-> <<>>]
  /\ used' = used \cup {"ffNotIdempotent"}
  /\ UNCHANGED <<mem, l2, rs, newer, txn, cinfo, content>>

ReinTurnOn ==
  /\ rein.pc = "ffdone"
  /\ mem' = Det(FALSE, mem.act, FALSE) /\ l2' = mem'
  /\ WriteRS(mem.act, mem')
  /\ StatusWritten(used)
  /\ rein' = [rein EXCEPT !.pc = "on"]
  /\ UNCHANGED <<fold, txn, logs, cinfo, content>>

ReinDone ==
  /\ rein.pc = "ffdone2"
  /\ rein' = [pc |-> "idle", todo |-> <<>>]
  /\ UNCHANGED <<fold, mem, l2, rs, newer, txn, logs, cinfo, content, used>>

-----------------------------------------------------------------------------
(* Properties *)
Quiescent  == rein.pc = "idle" /\ \A t \in Txns : txn[t].st # "open"
A == mem.act
P == Other(mem.act)
Equivalent == /\ fold[P].list = fold[A].list
              /\ \A s \in fold[A].list : fold[P].info[s] = fold[A].info[s] /\ fold[P].reg[s] = fold[A].reg[s]

\* the passive copy is a faithful replica whenever replication is on: with no failure ever, and again after a
\* completed reinstate (turnOnReplication clears the flag)
Faithful == (Quiescent /\ ~mem.failed /\ used = {}) => Equivalent
\* the failure flag is durable: it is in the active folder's status file
FlagPersisted == (mem.failed /\ used = {}) => (rs[A].present /\ rs[A].failed)
\* a fresh process agrees with the running one about the active folder
FreshAgrees == (used = {}) => FreshCode.act = mem.act
\* no commit log is left behind once replication is on again
NoLogLeft == (Quiescent /\ ~mem.failed /\ used = {}) => logs = <<>>

TypeOK == /\ mem.act \in 1..2 /\ l2.act \in 1..2 /\ newer \in 0..2
          /\ used \subseteq FindingNames /\ Findings \subseteq FindingNames
          /\ rein.pc \in {"idle", "begun", "logging", "copying", "copied", "ffdone", "on", "ffdone2"}

-----------------------------------------------------------------------------
(* Bounded exploration (Replication_mc*.cfg): handles are [lid, img] with small numbers, store infos [c, r] with
   r a fresh number per write; every commit touches one store with one registry operation.  `mc` carries the
   remaining budget of each action kind and the history of abstract steps (hidden by VIEW).                  *)
CONSTANTS MaxLid, MaxR, Budget
VARIABLE mc     \* [left, hist]

mvars == <<vars, mc>>
MCView == <<vars, mc.left>>

Max(S) == IF S = {} THEN 0 ELSE CHOOSE x \in S : \A y \in S : y <= x
AllLids == UNION {Lids(fold[i].reg[s]) : i \in 1..2, s \in Stores}
           \cup UNION {UNION {Lids(c.add) \cup Lids(c.set) \cup Lids(c.rem) : c \in logs[k]} : k \in 1..Len(logs)}
AllR == {fold[i].info[s].r : i \in 1..2, s \in Stores} \cup {cinfo[i][s].r : i \in 1..2, s \in Stores}
        \cup UNION {{c.info.r : c \in logs[k]} : k \in 1..Len(logs)}
FreshLid == Max(AllLids) + 1
FreshR   == Max(AllR) + 1

BudgetCD    == [begin |-> 1, create |-> 1, commit |-> 0, fail |-> 1, drop |-> 1, wipe |-> 0, failover |-> 0, reins |-> 1]
BudgetTiny  == [begin |-> 2, create |-> 0, commit |-> 2, fail |-> 1, drop |-> 0, wipe |-> 0, failover |-> 0, reins |-> 1]
BudgetQuick == [begin |-> 2, create |-> 0, commit |-> 2, fail |-> 1, drop |-> 0, wipe |-> 1, failover |-> 1, reins |-> 1]
BudgetSmall == [begin |-> 2, create |-> 1, commit |-> 2, fail |-> 1, drop |-> 1, wipe |-> 1, failover |-> 1, reins |-> 1]
BudgetLarge == [begin |-> 3, create |-> 1, commit |-> 3, fail |-> 1, drop |-> 1, wipe |-> 1, failover |-> 1, reins |-> 1]

\* exploration starts with one replicated store holding one handle
First == CHOOSE s \in Stores : TRUE
Seeded == [EmptyFold EXCEPT !.list = {First}, !.info[First] = [c |-> 1, r |-> 1], !.reg[First] = {[lid |-> 1, img |-> 1]}]
MCInit == /\ fold = [i \in 1..2 |-> Seeded]
          /\ mem = Det(FALSE, 1, FALSE) /\ l2 = Det(FALSE, 1, FALSE)
          /\ rs = [i \in 1..2 |-> NoRS] /\ newer = 0
          /\ txn = [t \in Txns |-> NoTxn]
          /\ logs = <<>> /\ cinfo = [i \in 1..2 |-> [s \in Stores |-> IF i = 1 /\ s = First THEN [c |-> 1, r |-> 1] ELSE NoInfo]]
          /\ rein = [pc |-> "idle", todo |-> <<>>]
          /\ content = [s \in Stores |-> {}] /\ used = {}
          /\ mc = [left |-> Budget, hist |-> <<>>]

Spend(k, rec) == /\ mc.left[k] > 0
                 /\ mc' = [left |-> [mc.left EXCEPT ![k] = @ - 1], hist |-> Append(mc.hist, rec)]
Note(rec) == mc' = [mc EXCEPT !.hist = Append(@, rec)]

\* single-store changes a transaction working on folder a can commit
MCChanges(a) ==
  UNION {LET R == fold[a].reg[s]
             inf(n) == [c |-> n, r |-> FreshR]
         IN {{[s |-> s, info |-> inf(Cardinality(R) + 1), ic |-> TRUE, add |-> {[lid |-> FreshLid, img |-> 1]}, set |-> {}, rem |-> {}]}}
            \cup {{[s |-> s, info |-> fold[a].info[s], ic |-> FALSE, add |-> {}, set |-> {[lid |-> h.lid, img |-> h.img + 1]}, rem |-> {}]} : h \in R}
            \cup {{[s |-> s, info |-> inf(Cardinality(R) - 1), ic |-> TRUE, add |-> {}, set |-> {}, rem |-> {h}]} : h \in R}
         : s \in fold[a].list}
Kind(chs) == LET c == CHOOSE c \in chs : TRUE IN
             IF c.add # {} THEN "add" ELSE IF c.set # {} THEN "upd" ELSE "rem"
StoreOf(chs) == (CHOOSE c \in chs : TRUE).s

Perms(S) == {q \in [1..Cardinality(S) -> S] : \A i, j \in 1..Cardinality(S) : i # j => q[i] # q[j]}

MCNext ==
  \/ \E t \in Txns : Begin(t) /\ Spend("begin", [a |-> "begin", t |-> t])
  \/ \E t \in Txns, s \in Stores, pf \in {"none", "store-file"}, ok \in BOOLEAN : \E sn \in Snaps(t) :
        /\ Create(t, sn, s, [c |-> 0, r |-> FreshR], ok, pf)
        /\ IF pf = "none" THEN Spend("create", [a |-> "create", t |-> t, s |-> s, fault |-> "none"])
                          ELSE rein.pc = "idle" /\ Spend("fail", [a |-> "create", t |-> t, s |-> s, fault |-> pf])
  \/ \E t \in Txns : \E sn \in Snaps(t) : \E chs \in MCChanges(sn.act) :
        \/ /\ Commit(t, sn, chs, {}, TRUE, "none", FALSE, fold[Other(sn.act)])
           /\ Spend("commit", [a |-> "commit", t |-> t, s |-> StoreOf(chs), kind |-> Kind(chs), fault |-> "none"])
        \/ \E pa \in {fold[Other(sn.act)], ApplyAll(fold[Other(sn.act)], chs, TRUE)} :
           /\ ~sn.failed /\ rein.pc = "idle"
           /\ Commit(t, sn, chs, {}, TRUE, "reg", TRUE, pa)
           /\ Spend("fail", [a |-> "commit", t |-> t, s |-> StoreOf(chs), kind |-> Kind(chs), fault |-> "reg"])
  \/ \E s \in Stores : s \in fold[Pulled.act].list /\ Drop(s, TRUE, "none") /\ Spend("drop", [a |-> "drop", s |-> s])
  \/ Wipe /\ rein.pc = "idle" /\ Spend("wipe", [a |-> "wipe"])
  \/ Failover(TRUE) /\ Spend("failover", [a |-> "failover"])
  \/ ReinBegin /\ Spend("reins", [a |-> "reinbegin"])
  \/ ReinStartLog /\ Note([a |-> "startlog"])
  \/ \E q \in Perms(fold[mem.act].list) : ReinCopyList(q) /\ Note([a |-> "copylist"])
  \/ \E s \in Stores : ReinCopyStore(s) /\ Note([a |-> "copystore", s |-> s])
  \/ \E r \in 1..2 : ReinFF(r) /\ Note([a |-> "ff"])
  \/ \E ph \in {"ff", "ff2"} : ReinFFFails(ph, fold[Other(mem.act)]) /\ Note([a |-> "reinfail"])
  \/ ReinCopyFails(fold[Other(mem.act)]) /\ Note([a |-> "reinfail"])
  \/ ReinTurnOn /\ Note([a |-> "turnon"])
  \/ ReinDone /\ Note([a |-> "reindone"])

MCSpec == MCInit /\ [][MCNext]_mvars

Bounded == FreshLid <= MaxLid + 1 /\ FreshR <= MaxR + 1

\* behaviours for the driver (simulation mode): printed when the reinstate budget is used up and the system is quiet
EmitBeh == (Quiescent /\ mc.left["reins"] = 0 /\ Len(mc.hist) >= 8) => PrintT(<<"BEH", ToJson(mc.hist)>>)
=============================================================================
