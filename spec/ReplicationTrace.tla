-------------------------- MODULE ReplicationTrace --------------------------
(* Trace validation for C27: the event log of the replication driver (real fs/infs code on a replicated layout)
   is consumed line by line; every line must be an enabled action of Replication with the logged arguments and
   results.  Observe lines compare both folders as read by the independent reader (catalogue, every registry
   slot), the process-wide replication details, both replstat.txt files and the number of commit-change logs
   with the specification's state; ApiDump lines compare what a fresh process reads through the public API.
   The properties of C27 are asserted on the state after every consumed line.                                *)
EXTENDS Replication, Json

VARIABLE l          \* next trace line to consume

Trace == ndJsonDeserialize("trace.ndjson")
tvars == <<vars, mc, l>>
E == Trace[l]

IsEv(e) == l <= Len(Trace) /\ Trace[l].ev = e /\ l' = l + 1

ToSet(q)  == {q[i] : i \in 1..Len(q)}
Chg(c)    == [s |-> c.s, info |-> c.info, ic |-> c.ic, add |-> ToSet(c.add), set |-> ToSet(c.set), rem |-> ToSet(c.rem)]
Wk(w)     == [s |-> w.s, put |-> ToSet(w.put), del |-> ToSet(w.del)]
\* folder image of an event -> folder record of the specification
SideInfo(x, s) == IF \E i \in 1..Len(x.stores) : x.stores[i].s = s
                  THEN x.stores[CHOOSE i \in 1..Len(x.stores) : x.stores[i].s = s].info ELSE NoInfo
SideReg(x, s)  == IF \E i \in 1..Len(x.stores) : x.stores[i].s = s
                  THEN ToSet(x.stores[CHOOSE i \in 1..Len(x.stores) : x.stores[i].s = s].reg) ELSE {}
ToFold(x) == [list |-> ToSet(x.list), info |-> [s \in Stores |-> SideInfo(x, s)], reg |-> [s \in Stores |-> SideReg(x, s)]]
KnownStores(x) == \A i \in 1..Len(x.stores) : x.stores[i].s \in Stores
MemIs(m) == Det(m.failed, m.act, m.logging)
RSIs(x)  == IF x.present THEN [present |-> TRUE, failed |-> x.failed, act |-> x.act, logging |-> x.logging] ELSE NoRS

\* the C27 properties, asserted on the state reached by every consumed line
Props == Faithful /\ FlagPersisted /\ FreshAgrees /\ NoLogLeft

TraceInit == l = 1 /\ TLCSet(1, 1) /\ Init /\ mc = [left |-> Budget, hist |-> <<>>]

TraceReset == /\ IsEv("Reset")
              /\ fold' = [i \in 1..2 |-> EmptyFold]
              /\ mem' = Det(FALSE, 1, FALSE) /\ l2' = Det(FALSE, 1, FALSE)
              /\ rs' = [i \in 1..2 |-> NoRS] /\ newer' = 0
              /\ txn' = [t \in Txns |-> NoTxn]
              /\ logs' = <<>> /\ cinfo' = [i \in 1..2 |-> [s \in Stores |-> NoInfo]]
              /\ rein' = [pc |-> "idle", todo |-> <<>>]
              /\ content' = [s \in Stores |-> {}] /\ used' = {}

TraceBegin  == IsEv("Begin") /\ Begin(E.t)
TraceCreate == /\ IsEv("Create")
               /\ \E sn \in Snaps(E.t) : Create(E.t, sn, E.s, E.info, E.ok, E.pf)
               /\ mem' = MemIs(E.mem)
TraceCommit == /\ IsEv("Commit")
               /\ E.abad = <<>>
               /\ \E sn \in Snaps(E.t) :
                     Commit(E.t, sn, {Chg(E.chs[i]) : i \in 1..Len(E.chs)}, {Wk(E.work[i]) : i \in 1..Len(E.work)},
                            E.ok, E.pf, E.hit, ToFold(E.pafter))
               /\ mem' = MemIs(E.mem)
\* a B-tree operation inside a transaction failed: only explicable for a transaction that still reads the folder
\* it copied at creation while the active folder has moved on
TraceWorkFailed == /\ IsEv("WorkFailed")
                   /\ Has("staleSnapshot") /\ txn[E.t].st = "open" /\ Snap(E.t) # Cur
                   /\ used' = used \cup {"staleSnapshot"}
                   /\ UNCHANGED <<fold, mem, l2, rs, newer, txn, logs, cinfo, rein, content>>
TraceDrop   == IsEv("Drop") /\ Drop(E.s, E.ok, E.pf) /\ mem' = MemIs(E.mem)
TraceWipe   == IsEv("Wipe") /\ Wipe
TraceFailover == IsEv("Failover") /\ Failover(E.ok) /\ mem' = MemIs(E.mem)

TraceReinBegin    == IsEv("ReinBegin") /\ (ReinBegin \/ ReinRefused)
TraceReinStartLog == IsEv("ReinStartLog") /\ ReinStartLog
TraceReinCopyList == IsEv("ReinCopyList") /\ ReinCopyList(E.order)
TraceReinCopyStore == IsEv("ReinCopyStore") /\ ReinCopyStore(E.s)
TraceReinFF       == IsEv("ReinFF") /\ ReinFF(E.round)
TraceReinTurnOn   == IsEv("ReinTurnOn") /\ ReinTurnOn
TraceReinDone ==
  /\ IsEv("ReinDone")
  /\ \/ E.ok /\ ReinDone
     \/ ~E.ok /\ E.phase = "precondition" /\ rein.pc = "idle" /\ ~mem.failed /\ UNCHANGED vars
     \/ ~E.ok /\ E.phase \in {"ff", "ff2"} /\ ReinFFFails(E.phase, ToFold(E.p))
     \/ ~E.ok /\ E.phase = "copy" /\ ReinCopyFails(ToFold(E.p))
  /\ mem' = MemIs(E.mem)

\* independent reader: both folders, the details in memory, both status files, pending logs
TraceObserve ==
  /\ IsEv("Observe")
  /\ KnownStores(E.a) /\ KnownStores(E.p)
  /\ E.a.bad = <<>> /\ E.p.bad = <<>>
  /\ mem = MemIs(E.mem)
  /\ ToFold(E.a) = fold[mem.act]
  /\ ToFold(E.p) = fold[Other(mem.act)]
  /\ rs[1] = RSIs(E.rs1) /\ rs[2] = RSIs(E.rs2)
  /\ E.nlogs = Len(logs)
  /\ UNCHANGED vars

\* fresh process through the public API.  force = 0: the folder the fresh process chooses by itself;
\* force = i: the harness makes folder i the active one of that process.  Whenever the folder read carries the
\* same catalogue and registry as the active folder, the dump must be exactly the committed content.
DumpIs(x) == /\ {x.stores[i].s : i \in 1..Len(x.stores)} = fold[mem.act].list
             /\ \A i \in 1..Len(x.stores) :
                   LET s == x.stores[i].s IN
                   IF fold[mem.act].info[s] = NoInfo
                   THEN x.stores[i].err # ""          \* listed, but no store info: cannot be opened
                   ELSE /\ x.stores[i].err = ""
                        \* (a B-tree whose store info says "0 items" is not walked at all)
                        /\ ToSet(x.stores[i].items) = IF x.stores[i].count = 0 THEN {} ELSE content[s]
                        /\ x.stores[i].count = fold[mem.act].info[s].c
                        /\ (used = {}) => x.stores[i].count = Cardinality(content[s])
SameAsActive(i) == /\ fold[i].list = fold[mem.act].list
                   /\ \A s \in fold[i].list : fold[i].info[s] = fold[mem.act].info[s] /\ fold[i].reg[s] = fold[mem.act].reg[s]
TraceApiDump ==
  /\ IsEv("ApiDump")
  /\ E.err = ""
  /\ \/ E.force = 0 /\ E.folder = FreshCode.act /\ E.failed = FreshCode.failed
     \/ E.force # 0 /\ E.folder = E.force
  \* (node blobs are shared by both folders: a transaction that committed into the wrong folder has deleted blobs
  \* the right folder still refers to, so nothing is claimed about reads after a stale-snapshot commit)
  /\ (Quiescent /\ SameAsActive(E.folder) /\ "staleSnapshot" \notin used) => DumpIs(E)
  /\ UNCHANGED vars

\* last line of every trace: report the finding branches this run needed (one line per surviving branch)
TraceEnd == IsEv("End") /\ PrintT("USED " \o E.name \o " " \o ToString(used)) /\ UNCHANGED vars

TraceNext ==
  /\ \/ TraceEnd \/ TraceReset \/ TraceBegin \/ TraceCreate \/ TraceCommit \/ TraceWorkFailed \/ TraceDrop \/ TraceWipe \/ TraceFailover
     \/ TraceReinBegin \/ TraceReinStartLog \/ TraceReinCopyList \/ TraceReinCopyStore \/ TraceReinFF
     \/ TraceReinTurnOn \/ TraceReinDone \/ TraceObserve \/ TraceApiDump
  /\ UNCHANGED mc
  /\ Props'

TraceSpec == TraceInit /\ [][TraceNext]_tvars

HighWater == IF l > TLCGet(1) THEN TLCSet(1, l) ELSE TRUE
TraceAccepted == /\ PrintT(<<"HWM", TLCGet(1) - 1>>)
                 /\ TLCGet(1) - 1 = Len(Trace)
=============================================================================
