\* tolerant: the code as it is at the pinned commit (every finding branch enabled, recorded in `used`)
SPECIFICATION TraceSpec
CONSTANTS
  Stores = {"s1", "s2", "s3"}
  Txns = {"t1", "t2", "t3", "t4", "t5", "t6", "t7", "t8", "t9", "t10", "t11", "t12"}
  Findings = {"copyReadsPassive", "staleSnapshot", "logFlagLost", "ffNotIdempotent", "createFailsOnPassive", "failoverNotDurable", "copyFailsOnDroppedStore"}
  NoR = ""
  MaxLid = 0
  MaxR = 0
  Budget <- BudgetQuick
CONSTRAINT HighWater
POSTCONDITION TraceAccepted
CHECK_DEADLOCK FALSE
