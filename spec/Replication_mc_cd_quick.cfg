\* creation / drop / failing creation of stores (kept out of the other quick configs);
\* the code as it is (all findings enabled): the properties hold on every behaviour that avoids the finding branches
SPECIFICATION MCSpec
CONSTANTS
  Stores = {"s1", "s2"}
  Txns = {"t1", "t2"}
  Findings = {"copyReadsPassive", "staleSnapshot", "logFlagLost", "ffNotIdempotent", "createFailsOnPassive", "failoverNotDurable", "copyFailsOnDroppedStore"}
  NoR = 0
  MaxLid = 2
  MaxR = 5
  Budget <- BudgetCD
INVARIANTS TypeOK Faithful FlagPersisted FreshAgrees NoLogLeft
CONSTRAINT Bounded
VIEW MCView
CHECK_DEADLOCK FALSE
