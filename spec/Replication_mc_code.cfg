\* the code as it is (all findings enabled): the properties hold on every behaviour that avoids the finding branches
SPECIFICATION MCSpec
CONSTANTS
  Stores = {"s1", "s2"}
  Txns = {"t1", "t2"}
  Findings = {"copyReadsPassive", "staleSnapshot", "logFlagLost", "ffNotIdempotent", "createFailsOnPassive", "failoverNotDurable", "copyFailsOnDroppedStore"}
  NoR = 0
  MaxLid = 3
  MaxR = 5
  Budget <- BudgetQuick
INVARIANTS TypeOK Faithful FlagPersisted FreshAgrees NoLogLeft
CONSTRAINT Bounded
VIEW MCView
CHECK_DEADLOCK FALSE
