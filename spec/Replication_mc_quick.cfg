\* quick tier: the intended design, smaller budget; (no finding enabled): every property must hold
SPECIFICATION MCSpec
CONSTANTS
  Stores = {"s1"}
  Txns = {"t1", "t2"}
  Findings = {}
  NoR = 0
  MaxLid = 3
  MaxR = 5
  Budget <- BudgetQuick
INVARIANTS TypeOK Faithful FlagPersisted FreshAgrees NoLogLeft
CONSTRAINT Bounded
VIEW MCView
CHECK_DEADLOCK FALSE
