\* simulation of the code model: emits behaviours (abstract step sequences) that the driver turns into programs
SPECIFICATION MCSpec
CONSTANTS
  Stores = {"s1", "s2"}
  Txns = {"t1", "t2", "t3"}
  Findings = {"copyReadsPassive", "staleSnapshot", "logFlagLost", "ffNotIdempotent", "createFailsOnPassive", "failoverNotDurable", "copyFailsOnDroppedStore"}
  NoR = 0
  MaxLid = 4
  MaxR = 8
  Budget <- BudgetLarge
INVARIANTS TypeOK Faithful EmitBeh
CONSTRAINT Bounded
CHECK_DEADLOCK FALSE
