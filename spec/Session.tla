------------------------------- MODULE Session -------------------------------
(* Session tokens of the data-manager HTTP server (/repo/tools/httpserver/auth.go, SessionStore).

   State of the server as the code keeps it:
     tok     facts fixed when a token string is issued: kind ("acc" = HMAC-signed access token,
             "ref" = opaque refresh token), the signing secret in force, the expiry written into it;
     table   the server-side B-tree "sessions": key (a token) -> session record.  CreateSession and
             Refresh store the SAME record under both the access and the refresh key;
     secret  the signing secret currently configured (0 = none configured: the code then signs with a
             constant that is public in the source);
     now     clock in ticks.  One tick = one wall-clock second in the harness; the harness aligns calls
             so that the signed `exp` claim (Unix seconds) and the stored ExpiresAt (nanoseconds) fall
             between the same two ticks (see harness/overlay/verif_session_test.go).
   Ghost state for the property: revoked / rotated (token ids taken out by RevokeToken / Refresh).

   One action per public call: Create (CreateSession), CreateToken, Refresh (followed at once by a
   validation of the new access token: "valid when issued"), Revoke (RevokeToken), Validate
   (ValidateToken), Forge (ValidateToken of a token signed by somebody who knows only public
   information), SetSecret, Tick.  The result of every call is computed by the specification.

   The property (C35) is what the actions compute when Findings = {}.  The unchanged code deviates in
   four ways; each is a named, switchable deviation (element of Findings) that a step MAY exhibit:
     "stateless"     the signature fast path of ValidateToken never consults the table, so a revoked or
                     rotated access token is accepted until its expiry;
     "oldsecret"     the store fallback of ValidateToken accepts a stored access token whose signature
                     does not verify under the current secret (issued under a previous secret);
     "refreshexp"    Refresh signs/stores the new access token with the OLD record's expiry even when that
                     expiry has already passed (the token is then dead on arrival);
     "defaultsecret" with no secret configured, tokens signed with the public constant are accepted.
   Behaviour the statement of C35 is silent about is modelled as the code does it, without a switch:
     - ValidateToken of a refresh key succeeds through the store fallback while the record's access
       expiry has not passed (RefreshKeyAsAccess);
     - a validation that finds an expired record deletes both keys of that record (ExpiredCleanup),
       and so does a Refresh that finds the refresh lifetime over;
     - whether Refresh extends the refresh lifetime is left open (the code does not extend it).                                            *)
EXTENDS Integers, Sequences, FiniteSets, TLC, Json

CONSTANTS TTL_A,      \* life of an access token, ticks
          TTL_R,      \* life of a refresh token, ticks
          MaxClock,   \* bound on now        (exhaustive / simulation)
          MaxIds,     \* bound on issued ids (exhaustive / simulation)
          MaxTokenOnly, \* bound on the number of CreateToken calls (exhaustive / simulation)
          MaxSteps,   \* bound on Len(hist)  (simulation; only when Record)
          Secrets,    \* configurable signing secrets, a set of naturals; 0 = none configured
          Findings,   \* subset of AllFindings a step may exhibit
          Record      \* TRUE: keep the program in hist (simulation), FALSE: hist stays empty

AllFindings == {"stateless", "oldsecret", "refreshexp", "defaultsecret"}
ASSUME Findings \subseteq AllFindings

VARIABLES now, secret, nextId, tok, table, revoked, rotated, last, hist

vars == <<now, secret, nextId, tok, table, revoked, rotated, last, hist>>
View == <<now, secret, nextId, tok, table, revoked, rotated, last>>

\* `last` = the clauses of the property contradicted by the observation made in the last step
\* (a set of clause names; empty in every state of a correct server).
NoLast == {}
If(c, name) == IF c THEN {name} ELSE {}

Step(op, t, m, k, kind, n, st) == [op |-> op, tok |-> t, mut |-> m, k |-> k, kind |-> kind, n |-> n, st |-> st]
Rec(h, s) == IF Record THEN Append(h, s) ELSE h
CanStep == Record => Len(hist) < MaxSteps
\* generated programs are in the normal form "a create comes first" (clock, secret and forgery steps
\* before the first create add nothing: the initial secret is arbitrary and time is shift-invariant)
Shaped == Record => nextId > 0

InTab(tab, t) == t \in DOMAIN tab
Drop(tab, S)  == [k \in (DOMAIN tab) \ S |-> tab[k]]
Keys(r)       == {r.acc} \cup (IF r.ref = 0 THEN {} ELSE {r.ref})

\* ValidateToken on the unmodified issued token t, deviations G, token facts tk, table tab.
Accepts(G, tk, tab, t) ==
  IF tk[t].kind = "acc"
  THEN LET sig  == tk[t].sec = secret
           fast == sig /\ now < tk[t].exp                     \* parseAndVerifySignedAccessToken
           slow == InTab(tab, t) /\ now < tab[t].exp          \* store fallback
       IN  \/ fast /\ (InTab(tab, t) \/ "stateless" \in G)
           \/ slow /\ (sig \/ "oldsecret" \in G)
  ELSE InTab(tab, t) /\ now < tab[t].exp                      \* RefreshKeyAsAccess

\* ExpiredCleanup: the store fallback found the key, but the record's access expiry has passed.
AfterValidate(tab, t) ==
  IF InTab(tab, t) /\ now >= tab[t].exp THEN Drop(tab, Keys(tab[t])) ELSE tab

\* The conditions the statement of C35 puts on a token that is honoured: issued by this server with its
\* current secret (refresh tokens are opaque: no secret involved), unmodified, unexpired, not revoked,
\* not rotated away.
Genuine(t, mut) == /\ ~mut
                   /\ (tok[t].kind = "acc" => tok[t].sec = secret)
                   /\ now < tok[t].exp
                   /\ t \notin revoked /\ t \notin rotated

\* labels used for evidence / signatures only
Status(t) == (IF t \in revoked THEN {"revoked"} ELSE {})
        \cup (IF t \in rotated THEN {"rotated"} ELSE {})
        \cup (IF now >= tok[t].exp THEN {"expired"} ELSE {})
        \cup (IF tok[t].kind = "acc" /\ tok[t].sec # secret THEN {"oldsecret"} ELSE {})
        \cup (IF InTab(table, t) THEN {"stored"} ELSE {})
NoSecret == IF secret = 0 THEN {"nosecret"} ELSE {}
Labels(t) == Status(t) \cup {tok[t].kind} \cup NoSecret
        \cup (IF tok[t].kind = "ref" /\ InTab(table, t) /\ now >= table[t].exp THEN {"accexpired"} ELSE {})

Init == /\ now = 0 /\ secret \in Secrets \cap {0, 1} /\ nextId = 0
        /\ tok = <<>> /\ table = <<>> /\ revoked = {} /\ rotated = {}
        /\ last = NoLast
        /\ hist = IF Record THEN <<Step("Start", 0, FALSE, secret, "", 0, {})>> ELSE <<>>

Tick(n) == /\ n \in 1..3 /\ now + n <= MaxClock /\ CanStep /\ Shaped
           /\ now' = now + n
           /\ last' = NoLast
           /\ hist' = Rec(hist, Step("Tick", 0, FALSE, 0, "", n, {}))
           /\ UNCHANGED <<secret, nextId, tok, table, revoked, rotated>>

SetSecret(k) == /\ k \in Secrets /\ k # secret /\ CanStep /\ Shaped
                /\ secret' = k
                /\ last' = NoLast
                /\ hist' = Rec(hist, Step("Secret", 0, FALSE, k, "", 0, {}))
                /\ UNCHANGED <<now, nextId, tok, table, revoked, rotated>>

\* CreateSession: a (access) and r (refresh) are the ids of the two new tokens.
Create(a, r, ok) ==
  /\ nextId + 2 <= MaxIds /\ CanStep
  /\ a = nextId + 1 /\ r = nextId + 2 /\ ok = TRUE
  /\ LET rec == [acc |-> a, ref |-> r, exp |-> now + TTL_A, refExp |-> now + TTL_R]
     IN  /\ tok' = tok @@ (a :> [kind |-> "acc", sec |-> secret, exp |-> now + TTL_A])
                       @@ (r :> [kind |-> "ref", sec |-> secret, exp |-> now + TTL_R])
         /\ table' = table @@ (a :> rec) @@ (r :> rec)
  /\ nextId' = nextId + 2
  /\ last' = NoLast
  /\ hist' = Rec(hist, Step("Create", 0, FALSE, 0, "", 0, {}))
  /\ UNCHANGED <<now, secret, revoked, rotated>>

\* CreateToken: access token only.
TokenOnlyCount == Cardinality({k \in DOMAIN tok : tok[k].kind = "acc"}) - Cardinality({k \in DOMAIN tok : tok[k].kind = "ref"})
CreateToken(a, ok) ==
  /\ nextId + 1 <= MaxIds /\ TokenOnlyCount < MaxTokenOnly /\ CanStep
  /\ a = nextId + 1 /\ ok = TRUE
  /\ tok' = tok @@ (a :> [kind |-> "acc", sec |-> secret, exp |-> now + TTL_A])
  /\ table' = table @@ (a :> [acc |-> a, ref |-> 0, exp |-> now + TTL_A, refExp |-> 0])
  /\ nextId' = nextId + 1
  /\ last' = NoLast
  /\ hist' = Rec(hist, Step("CreateToken", 0, FALSE, 0, "", 0, {}))
  /\ UNCHANGED <<now, secret, revoked, rotated>>

\* ValidateToken(t) or ValidateToken(a modification of t).  A modified token is by definition not issued.
Validate(t, mut, ok) ==
  /\ t \in DOMAIN tok /\ CanStep
  /\ \E G \in SUBSET Findings :
        ok = (~mut /\ Accepts(G, tok, table, t))
  \* ExpiredCleanup happens when the store is consulted.  For an access token whose signature does not
  \* verify the statement does not care whether the server still looks into the store (the unchanged code
  \* does, a server that rejects on the signature alone does not): both are allowed.
  /\ table' \in IF mut THEN {table}
                ELSE IF tok[t].kind = "acc" /\ tok[t].sec # secret THEN {table, AfterValidate(table, t)}
                ELSE {AfterValidate(table, t)}
  /\ last' = If(tok[t].kind = "acc" /\ ok /\ ~Genuine(t, mut), "accepted-not-genuine")
  /\ hist' = Rec(hist, Step("Validate", t, mut, 0, "", 0, Labels(t)))
  /\ UNCHANGED <<now, secret, nextId, tok, revoked, rotated>>

\* ValidateToken of a well-formed token signed by an outsider: with the constant that is public in the
\* source ("default") or with a key of his own ("other").
Forge(kind, ok) ==
  /\ kind \in {"default", "other"} /\ CanStep /\ Shaped
  /\ \E G \in SUBSET Findings :
        ok = (kind = "default" /\ secret = 0 /\ "defaultsecret" \in G)
  /\ last' = If(ok, "forged")
  /\ hist' = Rec(hist, Step("Forge", 0, FALSE, 0, kind, 0, {kind} \cup NoSecret))
  /\ UNCHANGED <<now, secret, nextId, tok, table, revoked, rotated>>

\* Refresh(t) for a refresh token t (or a modification of it), then ValidateToken(new access token).
\* a, r: ids of the new tokens (0 when the call fails); fresh: result of the immediate validation.
Refresh(t, mut, ok, a, r, fresh) ==
  /\ t \in DOMAIN tok /\ tok[t].kind = "ref" /\ CanStep
  /\ IF mut \/ ~InTab(table, t)
     THEN /\ ok = FALSE /\ a = 0 /\ r = 0 /\ fresh = FALSE
          /\ UNCHANGED <<nextId, tok, table, rotated>>
     ELSE LET old == table[t] IN
          IF now >= old.refExp
          THEN /\ ok = FALSE /\ a = 0 /\ r = 0 /\ fresh = FALSE
               /\ table' = Drop(table, Keys(old))
               /\ UNCHANGED <<nextId, tok, rotated>>
          ELSE /\ nextId + 2 <= MaxIds
               /\ ok = TRUE /\ a = nextId + 1 /\ r = nextId + 2
               \* rx: the statement does not say whether a refresh extends the refresh lifetime (the code
               \* keeps the original one); both are allowed
               \* ex: the statement asks that the new access token be valid when issued, not how long it
               \* lives: a full lifetime or the rest of the old token's lifetime are both allowed.  Reusing an
               \* expiry that has already passed is the deviation "refreshexp".
               /\ \E G \in SUBSET Findings : \E rx \in {old.refExp, now + TTL_R},
                     ex \in {now + TTL_A} \cup (IF old.exp > now \/ "refreshexp" \in G THEN {old.exp} ELSE {}) :
                    LET exp  == ex
                        nrec == [acc |-> a, ref |-> r, exp |-> exp, refExp |-> rx]
                        tk1  == tok @@ (a :> [kind |-> "acc", sec |-> secret, exp |-> exp])
                                    @@ (r :> [kind |-> "ref", sec |-> secret, exp |-> rx])
                        tab1 == Drop(table, Keys(old)) @@ (a :> nrec) @@ (r :> nrec)
                    IN  /\ fresh = Accepts(G, tk1, tab1, a)
                        /\ tok' = tk1
                        /\ table' = AfterValidate(tab1, a)
               /\ nextId' = nextId + 2
               /\ rotated' = rotated \cup Keys(old)
  /\ last' = If(ok /\ ~fresh, "refreshed-token-invalid") \cup If(ok /\ ~Genuine(t, mut), "dead-refresh-token-worked")
  /\ hist' = Rec(hist, Step("Refresh", t, mut, 0, "", 0, Labels(t)))
  /\ UNCHANGED <<now, secret, revoked>>

\* RevokeToken(t): works with either key of a live session; unknown keys are ignored.
Revoke(t, mut) ==
  /\ t \in DOMAIN tok /\ CanStep
  /\ IF mut \/ ~InTab(table, t)
     THEN UNCHANGED <<table, revoked>>
     ELSE /\ table' = Drop(table, Keys(table[t]))
          /\ revoked' = revoked \cup Keys(table[t])
  /\ last' = NoLast
  /\ hist' = Rec(hist, Step("Revoke", t, mut, 0, "", 0, Labels(t)))
  /\ UNCHANGED <<now, secret, nextId, tok, rotated>>

Next == \/ \E n \in 1..3 : Tick(n)
        \/ \E k \in Secrets : SetSecret(k)
        \/ \E ok \in BOOLEAN : Create(nextId + 1, nextId + 2, ok)
        \/ \E ok \in BOOLEAN : CreateToken(nextId + 1, ok)
        \/ \E t \in DOMAIN tok, m \in BOOLEAN, ok \in BOOLEAN : Validate(t, m, ok)
        \/ \E kind \in {"default", "other"}, ok \in BOOLEAN : Forge(kind, ok)
        \/ \E t \in DOMAIN tok, m \in BOOLEAN, ok \in BOOLEAN, fr \in BOOLEAN :
              \/ Refresh(t, m, ok, nextId + 1, nextId + 2, fr)
              \/ Refresh(t, m, ok, 0, 0, fr)
        \/ \E t \in DOMAIN tok, m \in BOOLEAN : Revoke(t, m)

Spec == Init /\ [][Next]_vars

-----------------------------------------------------------------------------
(* The property, clause by clause, on the observation made by the last step. *)

TypeOK == /\ now \in 0..MaxClock /\ secret \in Secrets /\ nextId \in 0..MaxIds
          /\ DOMAIN tok = 1..nextId
          /\ DOMAIN table \subseteq DOMAIN tok
          /\ \A k \in DOMAIN table : k \in Keys(table[k])
          /\ revoked \subseteq DOMAIN tok /\ rotated \subseteq DOMAIN tok

\* both keys of a record are present or absent together, and the record agrees with the token facts
TableCoherent == \A k \in DOMAIN table :
                    /\ Keys(table[k]) \subseteq DOMAIN table
                    /\ \A j \in Keys(table[k]) : table[j] = table[k]
                    /\ tok[table[k].acc].exp = table[k].exp

\* accepted access token => issued, unmodified, current secret, unexpired, not revoked, not rotated away
AcceptedOnlyIfGenuine == "accepted-not-genuine" \notin last

\* nobody outside the server can make a token
NoForgery == "forged" \notin last

\* a successful refresh returns an access token that is valid when issued
RefreshedTokenValid == "refreshed-token-invalid" \notin last

\* ... and the old refresh token stops working (a token used by a successful Refresh is in `rotated`)
DeadRefreshStaysDead == "dead-refresh-token-worked" \notin last

\* nothing revoked or rotated is ever in the table again
DeadNotStored == (revoked \cup rotated) \cap DOMAIN table = {}

\* simulation only: print the program when the walk is complete
EmitProgram == (Record /\ Len(hist) = MaxSteps) => PrintT(<<"PROG", ToJson(hist)>>)
=============================================================================
