---------------------------- MODULE SessionTrace ----------------------------
(* Trace validation for C35: the call log of the real SessionStore (one line per call, with its result),
   written by harness/overlay/verif_session_test.go, must be a behaviour of Session.  With
   Findings = {} (SessionTrace.cfg) that is the property itself; SessionTrace_known.cfg allows the
   recorded deviations so that the rest of a trace that exhibits one is still validated.
   Every consumed Validate / Refresh / Forge line prints <<"ST", line, labels, observed>> for the
   evidence and for the signature of a rejection.                                                 *)
EXTENDS Session

VARIABLE l          \* next trace line to consume

Trace == ndJsonDeserialize("trace.ndjson")

tvars == <<vars, l>>

IsEv(e) == l <= Len(Trace) /\ Trace[l].ev = e /\ l' = l + 1
E == Trace[l]

Fresh(k) == /\ now' = 0 /\ secret' = k /\ nextId' = 0 /\ tok' = <<>> /\ table' = <<>>
            /\ revoked' = {} /\ rotated' = {} /\ last' = NoLast /\ hist' = <<>>

TraceInit == /\ l = 1 /\ TLCSet(1, 1)
             /\ now = 0 /\ secret = 0 /\ nextId = 0 /\ tok = <<>> /\ table = <<>>
             /\ revoked = {} /\ rotated = {} /\ last = NoLast /\ hist = <<>>

TraceReset == IsEv("Reset") /\ Fresh(0)
TraceStart == IsEv("Start") /\ nextId = 0 /\ now = 0 /\ Fresh(E.k)

Note(t) == PrintT(<<"ST", l, E.ev, IF t = 0 THEN {E.kind} \cup NoSecret ELSE Labels(t), E.mut, E.ok, E.fresh>>)
Known(t) == t \in DOMAIN tok

TraceTick     == IsEv("Tick") /\ Tick(1)
TraceSecret   == IsEv("Secret") /\ SetSecret(E.k)
TraceCreate   == IsEv("Create") /\ Create(E.acc, E.ref, E.ok)
TraceCreateT  == IsEv("CreateToken") /\ CreateToken(E.acc, E.ok)
TraceValidate == IsEv("Validate") /\ Known(E.tok) /\ Note(E.tok) /\ Validate(E.tok, E.mut, E.ok)
                 /\ (E.ok => E.who = "match")
TraceForge    == IsEv("Forge") /\ Note(0) /\ Forge(E.kind, E.ok)
TraceRefresh  == IsEv("Refresh") /\ Known(E.tok) /\ Note(E.tok)
                 /\ Refresh(E.tok, E.mut, E.ok, E.acc, E.ref, E.fresh)
TraceRevoke   == IsEv("Revoke") /\ Known(E.tok) /\ Revoke(E.tok, E.mut)

TraceNext == \/ TraceReset \/ TraceStart \/ TraceTick \/ TraceSecret \/ TraceCreate \/ TraceCreateT
             \/ TraceValidate \/ TraceForge \/ TraceRefresh \/ TraceRevoke

TraceSpec == TraceInit /\ [][TraceNext]_tvars

HighWater == IF l > TLCGet(1) THEN TLCSet(1, l) ELSE TRUE
TraceAccepted == /\ PrintT(<<"HWM", TLCGet(1) - 1>>)
                 /\ TLCGet(1) - 1 = Len(Trace)
=============================================================================
