---------------------------- MODULE SessionTrace ----------------------------
(* Trace validation for C35: the call log of the real SessionStore (one line per call, with its result),
   written by harness/overlay/verif_session_test.go, must be a behaviour of Session.  With
   Findings = {} (SessionTrace.cfg) that is the property itself; SessionTrace_known.cfg allows the
   recorded deviations so that the rest of a trace that exhibits one is still validated.
   Every tried Validate / Refresh / Forge line prints a JSON note {st: line, labels, observed} for the
   evidence and for the signature of a rejection.                                                 *)
EXTENDS Session

VARIABLES l,        \* next trace line to consume
          cur       \* line of the Reset that opened the trace being consumed

Trace == ndJsonDeserialize("trace.ndjson")
ResetLines == {i \in 1..Len(Trace) : Trace[i].ev = "Reset"}

tvars == <<vars, l, cur>>

IsEv(e) == l < Trace[cur].next /\ Trace[l].ev = e /\ l' = l + 1 /\ cur' = cur
E == Trace[l]

Fresh(k) == /\ now' = 0 /\ secret' = k /\ nextId' = 0 /\ tok' = <<>> /\ table' = <<>>
            /\ revoked' = {} /\ rotated' = {} /\ last' = NoLast /\ hist' = <<>>

\* Traces are independent: every trace is an initial state of its own (cur = line of its Reset, which
\* carries the line number `next` of the following Reset), so the search is as deep as the longest trace
\* and not as the whole file.  Register cur+1 = high-water mark (next line to consume) of that trace.
TraceInit == /\ cur \in ResetLines /\ l = cur + 1 /\ TLCSet(cur + 1, cur + 1)
             /\ now = 0 /\ secret = 0 /\ nextId = 0 /\ tok = <<>> /\ table = <<>>
             /\ revoked = {} /\ rotated = {} /\ last = NoLast /\ hist = <<>>

TraceStart == IsEv("Start") /\ nextId = 0 /\ now = 0 /\ Fresh(E.k)

\* one JSON string per note (TLC wraps long tuples over several lines)
Note(t) == PrintT(ToJson([st |-> l, ev |-> E.ev, labels |-> IF t = 0 THEN {E.kind} \cup NoSecret ELSE Labels(t),
                          mut |-> E.mut, ok |-> E.ok, fresh |-> E.fresh]))
Known(t) == t \in DOMAIN tok

TraceTick     == IsEv("Tick") /\ Tick(1)
TraceSecret   == IsEv("Secret") /\ SetSecret(E.k)
TraceCreate   == IsEv("Create") /\ Create(E.acc, E.ref, E.ok)
TraceCreateT  == IsEv("CreateToken") /\ CreateToken(E.acc, E.ok)
TraceValidate == IsEv("Validate") /\ Known(E.tok) /\ Note(E.tok) /\ Validate(E.tok, E.mut, E.ok)
                 /\ (E.ok => E.who = "match")
TraceForge    == IsEv("Forge") /\ Note(0) /\ Forge(E.kind, E.ok)
TraceRefresh  == IsEv("Refresh") /\ Known(E.tok) /\ Note(E.tok)
                 /\ Refresh(E.tok, E.mut, E.ok, E.acc, E.ref, E.fresh)
TraceRevoke   == IsEv("Revoke") /\ Known(E.tok) /\ Revoke(E.tok, E.mut)

TraceNext == \/ TraceStart \/ TraceTick \/ TraceSecret \/ TraceCreate \/ TraceCreateT
             \/ TraceValidate \/ TraceForge \/ TraceRefresh \/ TraceRevoke

TraceSpec == TraceInit /\ [][TraceNext]_tvars

HighWater == IF l > TLCGet(cur + 1) THEN TLCSet(cur + 1, l) ELSE TRUE
\* prints, for every trace, the line of its Reset and its high-water mark; python compares with `next`
TraceAccepted == \A i \in ResetLines : PrintT(<<"HWM", i, TLCGet(i + 1)>>)
=============================================================================
