SPECIFICATION TraceSpec
CONSTANTS
  TTL_A = 3
  TTL_R = 5
  MaxClock = 1000000
  MaxIds = 1000000
  MaxTokenOnly = 1000000
  MaxSteps = 0
  Secrets = {0, 1, 2}
  Findings = {"stateless", "oldsecret", "refreshexp", "defaultsecret"}
  Record = FALSE
INVARIANTS TableCoherent DeadNotStored
CONSTRAINT HighWater
POSTCONDITION TraceAccepted
CHECK_DEADLOCK FALSE
