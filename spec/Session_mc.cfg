SPECIFICATION Spec
CONSTANTS
  TTL_A = 3
  TTL_R = 5
  MaxClock = 5
  MaxIds = 4
  MaxTokenOnly = 1
  MaxSteps = 0
  Secrets = {0, 1}
  Findings = {}
  Record = FALSE
VIEW View
INVARIANTS TypeOK TableCoherent AcceptedOnlyIfGenuine NoForgery RefreshedTokenValid DeadRefreshStaysDead DeadNotStored
CHECK_DEADLOCK FALSE
