SPECIFICATION Spec
CONSTANTS
  TTL_A = 3
  TTL_R = 5
  MaxClock = 7
  MaxIds = 8
  MaxTokenOnly = 2
  MaxSteps = 12
  Secrets = {0, 1, 2}
  Findings = {"stateless", "oldsecret", "refreshexp", "defaultsecret"}
  Record = TRUE
INVARIANTS EmitProgram
CHECK_DEADLOCK FALSE
