------------------------------ MODULE SopCommit ------------------------------
(* The node-version (handle) protocol of SOP's two-phase commit, as the registry sees it.

   reg[n] is the handle of logical node n: two physical ids a / b, ab = "b is active", version, a
   work-in-progress mark wip ("0" none, "ts" a fresh timestamp, "old" a timestamp older than the one-hour
   expiry, "1" just flipped) and the deleted mark.  A committer (common/noderepository.backend.go,
   common/twophasecommittransaction.go)
     locks the node keys, reads the handles, checks versions, RESERVES the inactive id (AllocateID +
     UpdateNoLocks(allOrNothing=false)), writes the staged blobs, writes the priority log, re-checks its locks and
     FLIPS all handles in one UpdateNoLocks(allOrNothing=true) - the commit point -, then unlocks and deletes the
     previous blobs.  Rollback clears reservations; recovery (priority rollback) writes the logged images back.

   Every action below is one registry / blob-store / lock-service call, parameterised by the handle images the
   call carries, and guarded by the protocol rule that call must respect.  SopCommitMC drives the actions through
   the control flow of the code for a few transactions (every interleaving, crash, lock expiry); SopCommitTrace
   drives them from registry-call traces of the real code.  *)
EXTENDS Integers, Sequences, FiniteSets, TLC

CONSTANT Nil

VARIABLES
  reg,     \* logical id -> handle
  blobs,   \* physical ids whose blob is completely written
  locks,   \* lock key (= logical id) -> owning transaction
  res,     \* <<t, n>> -> physical id transaction t reserved in n's inactive slot (live reservations only)
  marked,  \* set of <<t, n>>: t marked n deleted (not yet finalized)
  added,   \* set of <<t, n>>: handle n was registered by t, which has not ended yet
  plog,    \* t -> (n -> handle image) : priority log of t (absent = none)
  left,    \* handles registered by a transaction that then failed without unregistering them (unreachable leftovers)
  hist     \* set of <<n, v, t>> : t installed a successor of version v of node n

vars == <<reg, blobs, locks, res, marked, added, plog, left, hist>>

Handle(a, b, ab, ver, wip, del) == [a |-> a, b |-> b, ab |-> ab, ver |-> ver, wip |-> wip, del |-> del]
ActiveId(h)   == IF h.ab THEN h.b ELSE h.a
InactiveId(h) == IF h.ab THEN h.a ELSE h.b
SetInactive(h, id) == IF h.ab THEN [h EXCEPT !.a = id] ELSE [h EXCEPT !.b = id]
\* IsExpiredInactive: a timestamp older than one hour; the value 1 written by the flip counts as expired by design
Expired(h)    == h.wip \in {"old", "1"}

UsedIds == blobs \cup {reg[n].a : n \in DOMAIN reg} \cup {reg[n].b : n \in DOMAIN reg}

Init == /\ reg = <<>> /\ blobs = {} /\ locks = <<>> /\ res = <<>> /\ marked = {} /\ added = {}
        /\ plog = <<>> /\ left = {} /\ hist = {}

Drop(f, S) == [x \in DOMAIN f \ S |-> f[x]]
Put(f, g)  == [x \in DOMAIN f \cup DOMAIN g |-> IF x \in DOMAIN g THEN g[x] ELSE f[x]]

HoldsAll(t, N) == \A n \in N : n \in DOMAIN locks /\ locks[n] = t

-----------------------------------------------------------------------------
(* Lock service (cache.L2InMemoryCache / Redis): all-or-nothing from the caller's point of view *)
Lock(t, K, ok) ==
  /\ ok = (\A k \in K : k \notin DOMAIN locks \/ locks[k] = t)
  /\ locks' = IF ok THEN Put(locks, [k \in K |-> t]) ELSE locks
  /\ UNCHANGED <<reg, blobs, res, marked, added, plog, left, hist>>

IsLocked(t, K, ok) ==
  /\ ok = HoldsAll(t, K)
  /\ UNCHANGED vars

Unlock(t, K) ==
  /\ locks' = Drop(locks, {k \in K : k \in DOMAIN locks /\ locks[k] = t})
  /\ UNCHANGED <<reg, blobs, res, marked, added, plog, left, hist>>

\* TTL expiry of a lock (environment)
ExpireLock(k) ==
  /\ k \in DOMAIN locks
  /\ locks' = Drop(locks, {k})
  /\ UNCHANGED <<reg, blobs, res, marked, added, plog, left, hist>>

\* one hour passes for a work-in-progress mark (environment)
Age(n) ==
  /\ n \in DOMAIN reg /\ reg[n].wip = "ts"
  /\ reg' = [reg EXCEPT ![n].wip = "old"]
  /\ UNCHANGED <<blobs, locks, res, marked, added, plog, left, hist>>

-----------------------------------------------------------------------------
(* Registry reads: what a lookup returns is the current handle (also binds the registry caches) *)
RegGet(t, H, missing) ==
  /\ \A n \in DOMAIN H : n \in DOMAIN reg /\ H[n] = reg[n]
  /\ \A n \in missing : n \notin DOMAIN reg
  /\ UNCHANGED vars

\* Reservation of the inactive id for updated nodes: UpdateNoLocks(allOrNothing=false, handles)
ReserveGuard(t, H) ==
  /\ DOMAIN H # {}
  /\ HoldsAll(t, DOMAIN H)                                   \* node keys locked by the committer
  /\ \A n \in DOMAIN H :
       /\ n \in DOMAIN reg
       /\ H[n].ver = reg[n].ver                              \* built on the version just read
       /\ ActiveId(H[n]) = ActiveId(reg[n]) /\ H[n].ab = reg[n].ab
       /\ ~reg[n].del \/ Expired(reg[n])
       /\ InactiveId(reg[n]) = Nil \/ Expired(reg[n])        \* never over a live reservation
       /\ InactiveId(H[n]) # Nil /\ InactiveId(H[n]) \notin UsedIds
       /\ H[n].wip = "ts" /\ ~H[n].del
ReserveEffect(t, H) ==
  /\ reg' = Put(reg, H)
  /\ res' = Put(Drop(res, {p \in DOMAIN res : p[2] \in DOMAIN H}), [p \in {t} \X DOMAIN H |-> InactiveId(H[p[2]])])
  /\ UNCHANGED <<blobs, locks, marked, added, plog, left, hist>>
Reserve(t, H) == ReserveGuard(t, H) /\ ReserveEffect(t, H)

\* Deleted mark for removed nodes: UpdateNoLocks(allOrNothing=false, handles)
MarkRemoved(t, H) ==
  /\ DOMAIN H # {}
  /\ HoldsAll(t, DOMAIN H)
  /\ \A n \in DOMAIN H :
       /\ n \in DOMAIN reg /\ ~reg[n].del
       /\ H[n] = [reg[n] EXCEPT !.del = TRUE, !.wip = "ts"]
  /\ reg' = Put(reg, H)
  /\ marked' = marked \cup ({t} \X DOMAIN H)
  /\ UNCHANGED <<blobs, locks, res, added, plog, left, hist>>

\* Blob writes: staged node versions go under ids nobody can resolve yet
StageBlobs(t, ids) ==
  /\ \A id \in ids : \A n \in DOMAIN reg : ActiveId(reg[n]) = id => <<t, n>> \in added
  /\ blobs' = blobs \cup ids
  /\ UNCHANGED <<reg, locks, res, marked, added, plog, left, hist>>

\* New handles (new roots: version 0, added nodes: version 1): registry.Add
RegAdd(t, H) ==
  /\ \A n \in DOMAIN H : n \notin DOMAIN reg /\ H[n].b = Nil /\ ~H[n].ab /\ ~H[n].del /\ H[n].ver \in {0, 1}
  /\ reg' = Put(reg, H)
  /\ added' = added \cup ({t} \X DOMAIN H)
  /\ UNCHANGED <<blobs, locks, res, marked, plog, left, hist>>

\* Priority log: the images of the reserved / marked handles, written before the flip
PLogAdd(t) ==
  /\ LET N == {n \in DOMAIN reg : <<t, n>> \in DOMAIN res \/ <<t, n>> \in marked} IN
       plog' = Put(plog, (t :> [n \in N |-> reg[n]]))
  /\ UNCHANGED <<reg, blobs, locks, res, marked, added, left, hist>>

PLogRemove(t) ==
  /\ plog' = Drop(plog, {t})
  /\ UNCHANGED <<reg, blobs, locks, res, marked, added, left, hist>>

\* THE COMMIT POINT: UpdateNoLocks(allOrNothing=true, updated \cup removed handles), one atomic registry write
FlipGuard(t, H) ==
  /\ DOMAIN H # {}
  /\ HoldsAll(t, DOMAIN H)                                   \* still the owner of every node key
  /\ t \in DOMAIN plog /\ DOMAIN H \subseteq DOMAIN plog[t]  \* priority log written first
  /\ \A n \in DOMAIN H :
       /\ n \in DOMAIN reg
       /\ H[n].ver = reg[n].ver + 1                          \* exactly one step from the version it was built on
       /\ IF <<t, n>> \in marked
          THEN H[n].del /\ reg[n].del /\ ActiveId(H[n]) = ActiveId(reg[n])
          ELSE /\ <<t, n>> \in DOMAIN res
               /\ InactiveId(reg[n]) = res[<<t, n>>]         \* its own reservation is what gets activated
               /\ ActiveId(H[n]) = res[<<t, n>>]
               /\ InactiveId(H[n]) = ActiveId(reg[n])
               /\ ActiveId(H[n]) \in blobs                   \* points at fully written data
               /\ ~H[n].del
FlipEffect(t, H) ==
  /\ reg' = Put(reg, H)
  /\ hist' = hist \cup {<<n, reg[n].ver, t>> : n \in DOMAIN H}
  /\ res' = Drop(res, {t} \X DOMAIN H)
  /\ marked' = marked \ ({t} \X DOMAIN H)
  /\ UNCHANGED <<blobs, locks, added, plog, left>>
Flip(t, H) == FlipGuard(t, H) /\ FlipEffect(t, H)

\* Rollback of reservations / deleted marks: UpdateNoLocks(false, ..) or Update(..) writing cleared handles
RbClearGuard(t, H) ==
  /\ DOMAIN H # {}
  /\ \A n \in DOMAIN H :
       /\ n \in DOMAIN reg
       /\ H[n].ver = reg[n].ver /\ ActiveId(H[n]) = ActiveId(reg[n]) /\ H[n].ab = reg[n].ab
       /\ InactiveId(H[n]) = Nil /\ ~H[n].del /\ H[n].wip = "0"
       \* only its own reservation / mark may be cleared (or there is none)
       /\ InactiveId(reg[n]) = Nil \/ (<<t, n>> \in DOMAIN res /\ res[<<t, n>>] = InactiveId(reg[n])) \/ Expired(reg[n])
       /\ reg[n].del => (<<t, n>> \in marked \/ Expired(reg[n]))
RbClearEffect(t, H) ==
  /\ reg' = Put(reg, H)
  /\ res' = Drop(res, {t} \X DOMAIN H)
  /\ marked' = marked \ ({t} \X DOMAIN H)
  /\ UNCHANGED <<blobs, locks, added, plog, left, hist>>
RbClear(t, H) == RbClearGuard(t, H) /\ RbClearEffect(t, H)

\* Blob deletion (cleanup of obsolete ids, rollback of staged ids): never an id a live handle resolves to
BlobRemoveGuard(t, ids) ==
  \A id \in ids : \A n \in DOMAIN reg :
        ActiveId(reg[n]) = id => (reg[n].del \/ <<t, n>> \in added)
BlobRemoveEffect(t, ids) ==
  /\ blobs' = blobs \ ids
  /\ UNCHANGED <<reg, locks, res, marked, added, plog, left, hist>>
BlobRemove(t, ids) ==
  /\ BlobRemoveGuard(t, ids)
  /\ blobs' = blobs \ ids
  /\ UNCHANGED <<reg, locks, res, marked, added, plog, left, hist>>

\* Handle removal: removed nodes after the flip, or own added nodes / new roots on rollback
RegRemove(t, N) ==
  /\ \A n \in N : n \in DOMAIN reg => (reg[n].del \/ <<t, n>> \in added)
  /\ reg' = Drop(reg, N)
  /\ added' = added \ ({t} \X N)
  /\ UNCHANGED <<blobs, locks, res, marked, plog, left, hist>>

\* The transaction has ended (Commit / Rollback returned, or the process died)
End(t, committed) ==
  /\ added' = {p \in added : p[1] # t}
  /\ left' = IF committed THEN left ELSE left \cup {p[2] : p \in {q \in added : q[1] = t /\ q[2] \in DOMAIN reg}}
  /\ UNCHANGED <<reg, blobs, locks, res, marked, plog, hist>>

\* Recovery by another transaction u: the logged images of t are written back (doPriorityRollbacks)
PriorityRollback(u, t) ==
  /\ t \in DOMAIN plog
  /\ \A n \in DOMAIN plog[t] : n \in DOMAIN reg /\ reg[n].ver \in {plog[t][n].ver, plog[t][n].ver + 1}
  /\ reg' = Put(reg, plog[t])
  /\ plog' = Drop(plog, {t})
  \* a rolled back flip is withdrawn from the history: that successor is no longer installed
  /\ hist' = {x \in hist : ~(x[3] = t /\ x[1] \in DOMAIN plog[t] /\ reg[x[1]].ver = plog[t][x[1]].ver + 1)}
  /\ res' = Put(res, [p \in {t} \X {n \in DOMAIN plog[t] : InactiveId(plog[t][n]) # Nil} |-> InactiveId(plog[t][p[2]])])
  /\ marked' = marked \cup ({t} \X {n \in DOMAIN plog[t] : plog[t][n].del})
  /\ UNCHANGED <<blobs, locks, added, left>>

-----------------------------------------------------------------------------
(* Properties (C37) *)

\* two commits that started from the same version of a node never both install their successor
NoTwoSuccessors ==
  \A x, y \in hist : (x[1] = y[1] /\ x[2] = y[2]) => x[3] = y[3]

\* every handle that is not an unfinished transaction's own new node points at fully written data
ActiveIsComplete ==
  \A n \in DOMAIN reg :
     (~reg[n].del /\ n \notin left /\ ~\E t \in {p[1] : p \in added} : <<t, n>> \in added) => ActiveId(reg[n]) \in blobs

\* versions never go backwards except through recovery of that very flip (action property)
VersionMonotone ==
  [][\A n \in DOMAIN reg \cap DOMAIN reg' :
        reg'[n].ver >= reg[n].ver \/ (\E t \in DOMAIN plog : n \in DOMAIN plog[t] /\ t \notin DOMAIN plog')]_vars

=============================================================================
