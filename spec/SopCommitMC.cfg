SPECIFICATION MCSpec
CONSTANTS
  Nil = "nil"
  Txns = {"t1", "t2"}
  Nodes = {"n1", "n2"}
  WriteSet <- WS2
  MaxAttempts = 2
  MayCrash = {"t1"}
  LockExpiry = "none"
  F2Deviation = FALSE
  TimelyRecovery = TRUE
INVARIANTS NoTwoSuccessors ActiveIsComplete ProtocolRespected DoneMeansInstalled
PROPERTIES VersionMonotone
CHECK_DEADLOCK FALSE
