----------------------------- MODULE SopCommitMC -----------------------------
(* Exhaustive exploration of the handle protocol: a few committers running the control flow of
   phase1Commit / phase2Commit / rollback over shared nodes, with lock expiry, crashes, ageing of
   work-in-progress marks and priority rollback by the other transactions.  The register writes are
   performed unconditionally (as the code performs them: from the handle images it last read); whether
   each write respected its protocol guard is recorded in `broken`.  *)
EXTENDS SopCommit

CONSTANTS Txns, Nodes, WriteSet, MaxAttempts, MayCrash, LockExpiry, F2Deviation, TimelyRecovery

VARIABLES pc, rv, got, att, alive, newid, oldact, broken

mcvars == <<vars, pc, rv, got, att, alive, newid, oldact, broken>>

\* write sets used by the configurations (cfg files cannot write function literals)
WS2 == ("t1" :> {"n1", "n2"}) @@ ("t2" :> {"n1"})
WS3 == ("t1" :> {"n1", "n2"}) @@ ("t2" :> {"n1"}) @@ ("t3" :> {"n2"})
WS3b == ("t1" :> {"n1"}) @@ ("t2" :> {"n1"}) @@ ("t3" :> {"n1"})

P0(n) == "p_" \o n \o "_0"
NewId(t, n, k) == "p_" \o t \o "_" \o n \o "_" \o ToString(k)

MCInit ==
  /\ reg = [n \in Nodes |-> Handle(P0(n), Nil, FALSE, 1, "0", FALSE)]
  /\ blobs = {P0(n) : n \in Nodes}
  /\ locks = <<>> /\ res = <<>> /\ marked = {} /\ added = {} /\ plog = <<>> /\ left = {} /\ hist = {}
  /\ pc = [t \in Txns |-> "start"]
  /\ rv = [t \in Txns |-> <<>>] /\ got = [t \in Txns |-> <<>>]
  /\ att = [t \in Txns |-> 0] /\ alive = [t \in Txns |-> TRUE]
  /\ newid = [t \in Txns |-> <<>>] /\ oldact = [t \in Txns |-> <<>>]
  /\ broken = {}

W(t) == WriteSet[t]
Go(t, p) == pc' = [pc EXCEPT ![t] = p]
Same(t) == UNCHANGED <<rv, got, att, alive, newid, oldact, broken>>
Live(t) == alive[t]

\* the transaction reads the nodes it is going to change (versions it builds on)
Fetch(t) ==
  /\ Live(t) /\ pc[t] = "start"
  /\ rv' = [rv EXCEPT ![t] = [n \in W(t) |-> reg[n].ver]]
  /\ Go(t, "lock") /\ UNCHANGED <<vars, got, att, alive, newid, oldact, broken>>

TryLock(t) ==
  /\ Live(t) /\ pc[t] = "lock"
  /\ \E ok \in BOOLEAN : Lock(t, W(t), ok) /\ (IF ok THEN Go(t, "confirm") ELSE Go(t, "lock"))
  /\ Same(t)

Confirm(t) ==
  /\ Live(t) /\ pc[t] = "confirm"
  /\ \E ok \in BOOLEAN : IsLocked(t, W(t), ok) /\ (IF ok THEN Go(t, "get") ELSE Go(t, "lock"))
  /\ Same(t)

\* commitUpdatedNodes, first pass: registry.Get and the checks
Usable(h, v) == /\ ~(h.del /\ ~Expired(h)) /\ h.ver = v
                /\ (InactiveId(h) = Nil \/ Expired(h))
GetCheck(t) ==
  /\ Live(t) /\ pc[t] = "get"
  /\ got' = [got EXCEPT ![t] = [n \in W(t) |-> reg[n]]]
  /\ IF \A n \in W(t) : Usable(reg[n], rv[t][n])
     THEN Go(t, "reserve") /\ UNCHANGED <<att, rv>>
     ELSE \* conflict: unlock, refetch and merge, retry (bounded)
          /\ att' = [att EXCEPT ![t] = @ + 1]
          /\ rv' = [rv EXCEPT ![t] = [n \in W(t) |-> reg[n].ver]]
          /\ Go(t, IF att[t] + 1 >= MaxAttempts THEN "abort" ELSE "unlockretry")
  /\ UNCHANGED <<vars, alive, newid, oldact, broken>>

UnlockRetry(t) ==
  /\ Live(t) /\ pc[t] = "unlockretry"
  /\ Unlock(t, W(t)) /\ Go(t, "lock") /\ Same(t)

\* commitUpdatedNodes: AllocateID on the images read + UpdateNoLocks(false)
ReserveH(t) == [n \in W(t) |->
   LET h0 == IF got[t][n].del THEN [got[t][n] EXCEPT !.del = FALSE] ELSE got[t][n]
       h1 == IF InactiveId(h0) # Nil THEN SetInactive(h0, Nil) ELSE h0
   IN [SetInactive(h1, NewId(t, n, att[t])) EXCEPT !.wip = "ts"]]
DoReserve(t) ==
  /\ Live(t) /\ pc[t] = "reserve"
  /\ ReserveEffect(t, ReserveH(t))
  /\ broken' = IF ReserveGuard(t, ReserveH(t)) THEN broken ELSE broken \cup {<<"Reserve", t>>}
  /\ newid' = [newid EXCEPT ![t] = [n \in W(t) |-> NewId(t, n, att[t])]]
  /\ oldact' = [oldact EXCEPT ![t] = [n \in W(t) |-> ActiveId(got[t][n])]]
  /\ Go(t, "stage") /\ UNCHANGED <<rv, got, att, alive>>

Stage(t) ==
  /\ Live(t) /\ pc[t] = "stage"
  /\ blobs' = blobs \cup {newid[t][n] : n \in W(t)}
  /\ UNCHANGED <<reg, locks, res, marked, added, plog, left, hist>>
  /\ Go(t, "plog") /\ Same(t)

WritePLog(t) ==
  /\ Live(t) /\ pc[t] = "plog"
  /\ PLogAdd(t) /\ Go(t, "recheck") /\ Same(t)

\* nodesKeysNilOrLocked, then DualLock when lost; failure => error => rollback
Recheck(t) ==
  /\ Live(t) /\ pc[t] = "recheck"
  /\ IF HoldsAll(t, W(t)) THEN UNCHANGED vars /\ Go(t, "flip")
     ELSE \E ok \in BOOLEAN : Lock(t, W(t), ok) /\ (IF ok THEN Go(t, "flip") ELSE Go(t, "abort"))
  /\ Same(t)

FlipH(t) == [n \in W(t) |->
   LET h == [got[t][n] EXCEPT !.del = FALSE] IN
   [a |-> IF h.ab THEN newid[t][n] ELSE h.a, b |-> IF h.ab THEN h.b ELSE newid[t][n],
    ab |-> ~h.ab, ver |-> h.ver + 1, wip |-> "1", del |-> FALSE]]
DoFlip(t) ==
  /\ Live(t) /\ pc[t] = "flip"
  /\ FlipEffect(t, FlipH(t))
  /\ broken' = IF FlipGuard(t, FlipH(t)) THEN broken ELSE broken \cup {<<"Flip", t>>}
  /\ Go(t, "post") /\ UNCHANGED <<rv, got, att, alive, newid, oldact>>

Post(t) ==
  /\ Live(t) /\ pc[t] = "post"
  /\ PLogRemove(t) /\ Go(t, "unlock") /\ Same(t)

UnlockDone(t) ==
  /\ Live(t) /\ pc[t] = "unlock"
  /\ Unlock(t, W(t)) /\ Go(t, "cleanup") /\ Same(t)

\* cleanup: the previously active blobs are obsolete
Cleanup(t) ==
  /\ Live(t) /\ pc[t] = "cleanup"
  /\ BlobRemoveEffect(t, {oldact[t][n] : n \in W(t)})
  /\ broken' = IF BlobRemoveGuard(t, {oldact[t][n] : n \in W(t)}) THEN broken ELSE broken \cup {<<"Cleanup", t>>}
  /\ Go(t, "done") /\ UNCHANGED <<rv, got, att, alive, newid, oldact>>

RbH(t) == [n \in W(t) |-> [SetInactive(reg[n], Nil) EXCEPT !.wip = "0"]]
\* rollback(): priority log removed first (committedState >= beforeFinalize) ...
Abort(t) ==
  /\ Live(t) /\ pc[t] = "abort"
  /\ PLogRemove(t) /\ Go(t, "abortB") /\ Same(t)
\* ... rollbackUpdatedNodes: re-reads the handles, deletes the blobs under their inactive ids ...
AbortB(t) ==
  /\ Live(t) /\ pc[t] = "abortB"
  /\ blobs' = blobs \ (IF newid[t] # <<>> THEN {InactiveId(reg[n]) : n \in W(t)} ELSE {})
  /\ UNCHANGED <<reg, locks, res, marked, added, plog, left, hist>>
  /\ Go(t, "abortC") /\ Same(t)
\* ... and writes the handles back with the inactive id cleared ...
AbortC(t) ==
  /\ Live(t) /\ pc[t] = "abortC"
  /\ IF newid[t] # <<>>
     THEN /\ RbClearEffect(t, RbH(t))
          /\ broken' = IF RbClearGuard(t, RbH(t)) THEN broken ELSE broken \cup {<<"RbClear", t>>}
     ELSE UNCHANGED <<reg, res, marked, broken>> /\ UNCHANGED <<blobs, locks, added, plog, left, hist>>
  /\ Go(t, "abortD") /\ UNCHANGED <<rv, got, att, alive, newid, oldact>>
\* ... then the node keys are unlocked
AbortD(t) ==
  /\ Live(t) /\ pc[t] = "abortD"
  /\ Unlock(t, W(t)) /\ Go(t, "failed") /\ Same(t)

\* an injected failure / timeout may send a transaction to rollback from these points
Fail(t) ==
  /\ Live(t) /\ pc[t] \in {"stage", "plog", "recheck", "flip"}
  /\ IF F2Deviation /\ pc[t] = "stage"
     THEN \* failure inside commitUpdatedNodes: rollback does not undo the reservation (see known finding F2)
          /\ locks' = Drop(locks, {k \in W(t) : k \in DOMAIN locks /\ locks[k] = t})
          /\ UNCHANGED <<reg, blobs, res, marked, added, plog, left, hist>> /\ Go(t, "failed")
     ELSE UNCHANGED vars /\ Go(t, "abort")
  /\ Same(t)

Crash(t) ==
  /\ Live(t) /\ t \in MayCrash /\ pc[t] \notin {"done", "failed", "start"}
  /\ alive' = [alive EXCEPT ![t] = FALSE]
  /\ UNCHANGED <<vars, pc, rv, got, att, newid, oldact, broken>>

\* LockExpiry = "dead": only locks of crashed owners expire (TTL = maxTime; a live committer gives up at maxTime);
\* "any": a live but stalled owner may lose its lock at any moment (outside the property's quantifier: explored
\* separately, see DESIGN.md)
Expire(k) ==
  /\ LockExpiry # "none"
  /\ k \in DOMAIN locks /\ (LockExpiry = "any" \/ ~alive[locks[k]])
  /\ ExpireLock(k)
  /\ UNCHANGED <<pc, rv, got, att, alive, newid, oldact, broken>>

\* TimelyRecovery: priority logs (recovered after ~5 minutes) are processed before a work-in-progress mark
\* reaches its one-hour expiry, i.e. no mark covered by a dead transaction's priority log ages out.
AgeOne(n) ==
  /\ \E t \in Txns : ~alive[t] /\ (<<t, n>> \in DOMAIN res \/ <<t, n>> \in marked)   \* the mark's owner died
  /\ TimelyRecovery => \A t \in Txns : (<<t, n>> \in DOMAIN res \/ <<t, n>> \in marked) => (~alive[t] /\ t \notin DOMAIN plog)
  /\ Age(n) /\ UNCHANGED <<pc, rv, got, att, alive, newid, oldact, broken>>

\* another live transaction runs the priority rollback of a dead one (needs the dead one's keys: takes them over)
Recover(u, t) ==
  /\ Live(u) /\ ~alive[t] /\ t \in DOMAIN plog
  /\ \A n \in DOMAIN plog[t] : IF n \in DOMAIN locks THEN locks[n] = t ELSE TRUE
  /\ PriorityRollback(u, t)
  /\ UNCHANGED <<pc, rv, got, att, alive, newid, oldact, broken>>

MCNext ==
  \/ \E t \in Txns : Fetch(t) \/ TryLock(t) \/ Confirm(t) \/ GetCheck(t) \/ UnlockRetry(t) \/ DoReserve(t)
                     \/ Stage(t) \/ WritePLog(t) \/ Recheck(t) \/ DoFlip(t) \/ Post(t) \/ UnlockDone(t)
                     \/ Cleanup(t) \/ Abort(t) \/ AbortB(t) \/ AbortC(t) \/ AbortD(t) \/ Fail(t) \/ Crash(t)
  \/ \E k \in Nodes : Expire(k) \/ AgeOne(k)
  \/ \E u, t \in Txns : Recover(u, t)

MCSpec == MCInit /\ [][MCNext]_mcvars

\* the protocol guards are respected by every write the control flow performs
ProtocolRespected == broken = {}

\* a committed transaction's data is what the handles resolve to; nobody's commit is lost:
\* every transaction that reached "done" has its flip in the history (unless recovery withdrew it: impossible once done)
DoneMeansInstalled ==
  \A t \in Txns : pc[t] \in {"unlock", "cleanup", "done"} => \A n \in W(t) : \E x \in hist : x[1] = n /\ x[3] = t

\* quiescent: nobody is in flight
Quiet == \A t \in Txns : pc[t] \in {"done", "failed", "start"} \/ ~alive[t]
=============================================================================
