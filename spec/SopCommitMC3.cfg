SPECIFICATION MCSpec
CONSTANTS
  Nil = "nil"
  Txns = {"t1", "t2", "t3"}
  Nodes = {"n1", "n2"}
  WriteSet <- WS3
  MaxAttempts = 2
  MayCrash = {"t1", "t2"}
  LockExpiry = "dead"
  F2Deviation = FALSE
  TimelyRecovery = TRUE
INVARIANTS NoTwoSuccessors ActiveIsComplete DoneMeansInstalled
PROPERTIES VersionMonotone
CHECK_DEADLOCK FALSE
