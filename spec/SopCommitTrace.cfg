SPECIFICATION TraceSpec
CONSTANTS Nil = "nil"
INVARIANTS NoTwoSuccessors ActiveIsComplete
CONSTRAINT HighWater
POSTCONDITION TraceAccepted
CHECK_DEADLOCK FALSE
