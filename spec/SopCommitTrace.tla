---------------------------- MODULE SopCommitTrace ----------------------------
(* Trace validation of backend-call traces (registry / blob store / priority log / lock service calls with full
   handle images, recorded by decorators around the interfaces SOP injects) against the handle protocol of
   SopCommit: each registry write must be one of the protocol's writes, enabled in the current model state.  *)
EXTENDS SopCommit, Json

VARIABLES l,      \* next trace line
          ended   \* transactions that have ended (a lock one of them still holds - its Unlock failed - expires after
                  \* its TTL, which is the transaction's maxTime: a later Lock that succeeds on such a key took it over)
Trace == ndJsonDeserialize("trace.ndjson")
tvars == <<vars, l, ended>>
IsEv0(e) == l <= Len(Trace) /\ Trace[l].ev = e /\ l' = l + 1
IsEv(e) == IsEv0(e) /\ ended' = ended
E == Trace[l]

HRec(x) == Handle(x.a, x.b, x.ab, x.v, x.wip, x.del)
\* the handle images a call carries, as a function logical id -> handle
HOf(hs) == [n \in {hs[i].l : i \in 1..Len(hs)} |-> HRec(hs[CHOOSE i \in 1..Len(hs) : hs[i].l = n])]
SetOf(q) == {q[i] : i \in 1..Len(q)}
\* timestamps are logged as "ts" whatever their age
NormWip(h) == IF h.wip = "old" THEN [h EXCEPT !.wip = "ts"] ELSE h
NodeKeys(q) == SetOf(q) \cap DOMAIN reg

TraceInit == l = 1 /\ ended = {} /\ TLCSet(1, 1) /\ Init
TraceReset == /\ IsEv0("Reset") /\ ended' = {}
              /\ reg' = <<>> /\ blobs' = {} /\ locks' = <<>> /\ res' = <<>> /\ marked' = {} /\ added' = {}
              /\ plog' = <<>> /\ left' = {} /\ hist' = {}

PosIn(q, x) == IF \E k \in 1..Len(q) : q[k] = x THEN CHOOSE k \in 1..Len(q) : q[k] = x /\ \A m \in 1..(k - 1) : q[m] # x ELSE 0
TraceRegGet ==
  /\ IsEv("REG.Get")
  /\ LET H == HOf(E.h) IN
       /\ \A n \in DOMAIN H : n \in DOMAIN reg /\ NormWip(H[n]) = NormWip(reg[n])
       /\ \A n \in SetOf(E.ids) \ DOMAIN H : n \notin DOMAIN reg
  \* the handles come back in the order of the requested ids (callers match them to their nodes by position)
  /\ \A i, j \in 1..Len(E.h) : i < j => PosIn(E.ids, E.h[i].l) < PosIn(E.ids, E.h[j].l)
  /\ UNCHANGED vars

TraceRegAdd == IsEv("REG.Add") /\ RegAdd(E.t, HOf(E.h))

\* UpdateNoLocks(allOrNothing=false) / Update: reservation, deleted mark, rollback clear, or recovery restore
TraceRegWrite ==
  /\ IsEv("REG.Write")
  /\ LET H == HOf(E.h) IN
       \/ Reserve(E.t, H)
       \/ MarkRemoved(E.t, H)
       \/ RbClear(E.t, H)
       \/ \E t2 \in DOMAIN plog : DOMAIN H = DOMAIN plog[t2]
              /\ (\A n \in DOMAIN H : NormWip(H[n]) = NormWip(plog[t2][n])) /\ PriorityRollback(E.t, t2)

TraceFlip == IsEv("REG.Flip") /\ Flip(E.t, HOf(E.h))
TraceRegRemove == IsEv("REG.Remove") /\ RegRemove(E.t, SetOf(E.ids))
TraceBlobAdd == IsEv("BLOB.Add") /\ StageBlobs(E.t, SetOf(E.ids))
TraceBlobRemove == IsEv("BLOB.Remove") /\ BlobRemove(E.t, SetOf(E.ids))
TracePLogAdd == IsEv("PLOG.Add") /\ PLogAdd(E.t)
TracePLogRemove == IsEv("PLOG.Remove") /\ PLogRemove(E.t)
\* locks on keys the model does not hold (registry sector locks, store locks, item locks) may be refused for reasons
\* outside the model (e.g. an earlier Unlock of a sector lock failed): a refusal that involves such keys changes nothing
TraceLock == /\ IsEv("L2.Lock")
             /\ LET K == NodeKeys(E.keys)
                    expired == {k \in K \cap DOMAIN locks : locks[k] \in ended} IN
                IF ~E.ok /\ K # SetOf(E.keys) THEN UNCHANGED vars
                ELSE IF E.ok /\ expired # {}
                     THEN \* take-over of locks whose (ended) owner never released them
                          /\ \A k \in K \ expired : k \notin DOMAIN locks \/ locks[k] = E.t
                          /\ locks' = Put(locks, [k \in K |-> E.t])
                          /\ UNCHANGED <<reg, blobs, res, marked, added, plog, left, hist>>
                     ELSE Lock(E.t, K, E.ok)
\* IsLocked answers for the node keys and for other keys (item locks, sector locks) alike: only a positive answer
\* is checked against the model
TraceIsLocked == /\ IsEv("L2.IsLocked")
                 /\ (E.ok /\ NodeKeys(E.keys) = SetOf(E.keys)) => HoldsAll(E.t, NodeKeys(E.keys))
                 /\ UNCHANGED vars
TraceUnlock == IsEv("L2.Unlock") /\ Unlock(E.t, NodeKeys(E.keys))
TraceEnd == IsEv0("End") /\ End(E.t, E.ok) /\ ended' = ended \cup {E.t}
\* the harness advanced the clock past the one-hour expiry
TraceAge == /\ IsEv("AgeAll")
            /\ reg' = [n \in DOMAIN reg |-> IF reg[n].wip = "ts" THEN [reg[n] EXCEPT !.wip = "old"] ELSE reg[n]]
            /\ UNCHANGED <<blobs, locks, res, marked, added, plog, left, hist>>
TraceExpireLocks == /\ IsEv("ExpireLocks")
                    /\ locks' = <<>>
                    /\ UNCHANGED <<reg, blobs, res, marked, added, plog, left, hist>>

TraceNext == \/ TraceReset \/ TraceRegGet \/ TraceRegAdd \/ TraceRegWrite \/ TraceFlip \/ TraceRegRemove
             \/ TraceBlobAdd \/ TraceBlobRemove \/ TracePLogAdd \/ TracePLogRemove
             \/ TraceLock \/ TraceIsLocked \/ TraceUnlock \/ TraceEnd \/ TraceAge \/ TraceExpireLocks

TraceSpec == TraceInit /\ [][TraceNext]_tvars

HighWater == IF l > TLCGet(1) THEN TLCSet(1, l) ELSE TRUE
TraceAccepted == /\ PrintT(<<"HWM", TLCGet(1) - 1>>)
                 /\ TLCGet(1) - 1 = Len(Trace)
=============================================================================
