------------------------------- MODULE Stream -------------------------------
(* C31 - chunked streaming entries of /repo/streamingdata on top of one B-tree.

   The B-tree holds items (Key, ChunkIndex) -> chunk bytes.  A chunk is abstracted to
   [id, len]: `id` names the bytes that were written (one json.Encoder.Encode call = one
   writer.Write call = one chunk), `len` is the number of bytes.  Byte equality of payloads
   is outside TLA+; the conformance driver checks it (a decoded value names its own id and
   is compared, on the Go side, with the value generated for that id).

   One action per public call, written the way the code works:
     Begin   StreamingDataStore.Add / AddIfNotExist / Update / Upsert     (streamingdatastore.go)
     Encode  Encoder.Encode -> writer.Write                               (writer.go)
     Close   Encoder.Close: delete old chunks from the writer's index on  (encoder.go)
     Remove  StreamingDataStore.Remove: FindOne + RemoveCurrentItem       (streamingdatastore.go)
     Open    FindOne/FindChunk + GetCurrentValue -> newReader             (streamingdatastore.go)
     Read*   reader.Read(p), one action per branch of the code            (reader.go)
     Decode  json.Decoder.Decode on top of the reader (client of Read)
   The B-tree content is a partial function chunk index -> chunk per key, *not* a sequence:
   the code looks chunks up by index, so holes are representable and `Contiguous` is an
   invariant to be checked rather than an assumption.

   StuckReader = TRUE enables the finding action ReadPendingLastStuck next to the intended
   ReadPendingLast: reader.Read clears the partially consumed chunk without advancing chunkIndex
   (what /repo did up to commit bce4f3ae, which repaired it; see fixes/C31-*.diff).  A reader that took it is marked `stuck`; the read-back
   invariants speak about readers that are not (the *All variants speak about every reader and are
   what TLC refutes when the finding action is enabled).  With FALSE only the intended behaviour exists. *)
EXTENDS Integers, Sequences, FiniteSets, TLC

CONSTANTS Keys,          \* entry keys
          Readers,       \* reader handles
          StuckReader,   \* BOOLEAN: enable the finding action "chunk index not advanced after a partially consumed chunk"
          Lens, Caps,    \* exhaustive model only: chunk lengths and Read capacities to enumerate
          MaxChunks,     \* exhaustive model only: chunks per entry
          MaxIds         \* exhaustive model only: number of Encode calls in a behaviour

VARIABLES store,   \* [Keys -> partial function Nat -> [id, len]]      the B-tree
          ws,      \* [Keys -> writer session]                          Encoder + writer per key
          rd,      \* [Readers -> reader state]                         reader (+ decoder client)
          ideal,   \* [Keys -> Seq(id)] ghost: what the property says the entry must hold
          nid      \* exhaustive model only: next fresh chunk id

vars == <<store, ws, rd, ideal, nid>>

NoChunk == [id |-> -1, len |-> 0]
Min(a, b) == IF a < b THEN a ELSE b

Has(k, i) == i \in DOMAIN store[k]
Exists(k) == Has(k, 0)                        \* FindOne(key) = Find((key, 0))
Put(f, i, c) == (i :> c) @@ f
Del(f, S) == [j \in (DOMAIN f) \ S |-> f[j]]
Empty == [j \in {} |-> NoChunk]

\* first index >= from that is absent (Close's loop stops there)
FirstHole(k, from) == CHOOSE j \in from..(from + Cardinality(DOMAIN store[k])) :
                          /\ ~Has(k, j)
                          /\ \A i \in from..(j - 1) : Has(k, i)

ClosedW == [open |-> FALSE, add |-> FALSE, idx |-> 0, ids |-> <<>>]
ClosedR == [open |-> FALSE, key |-> "", start |-> 0, ci |-> 0, pending |-> FALSE, pchunk |-> NoChunk, off |-> 0,
            eof |-> FALSE, out |-> <<>>, got |-> <<>>, dec |-> 0, clean |-> TRUE, stuck |-> FALSE]

Init == /\ store = [k \in Keys |-> Empty]
        /\ ws = [k \in Keys |-> ClosedW]
        /\ rd = [r \in Readers |-> ClosedR]
        /\ ideal = [k \in Keys |-> <<>>]
        /\ nid = 0

\* a reader of key k whose entry is modified under it is no longer covered by the read-back property
Touch(k) == [r \in Readers |-> IF rd[r].open /\ rd[r].key = k THEN [rd[r] EXCEPT !.clean = FALSE] ELSE rd[r]]

-----------------------------------------------------------------------------
(* Writer side *)

\* api in {"Add","AddIfNotExist","Update","Upsert"}; got = an Encoder was returned
Begin(k, api, got) ==
  /\ ~ws[k].open
  /\ LET addMode == CASE api = "Add" -> TRUE
                      [] api = "AddIfNotExist" -> TRUE
                      [] api = "Update" -> FALSE
                      [] api = "Upsert" -> ~Exists(k)
         gives == CASE api = "Add" -> TRUE
                    [] api = "AddIfNotExist" -> ~Exists(k)
                    [] api = "Update" -> Exists(k)
                    [] api = "Upsert" -> TRUE
     IN /\ api \in {"Add", "AddIfNotExist", "Update", "Upsert"}
        /\ got = gives
        /\ ws' = IF gives THEN [ws EXCEPT ![k] = [open |-> TRUE, add |-> addMode, idx |-> 0, ids |-> <<>>]] ELSE ws
  /\ UNCHANGED <<store, rd, ideal>>

\* writer.Write(p): one chunk.  Add mode inserts (unique B-tree: fails when the index exists);
\* update mode overwrites chunk idx when present, otherwise inserts.
Encode(k, id, n, ok) ==
  /\ ws[k].open
  /\ LET i == ws[k].idx
         clash == ws[k].add /\ Has(k, i)
     IN /\ ok = ~clash
        /\ IF clash
             THEN UNCHANGED <<store, ws, rd>>
             ELSE /\ store' = [store EXCEPT ![k] = Put(@, i, [id |-> id, len |-> n])]
                  /\ ws' = [ws EXCEPT ![k].idx = i + 1, ![k].ids = Append(@, id)]
                  /\ rd' = Touch(k)
  /\ UNCHANGED ideal

\* Encoder.Close: no-op in add mode; in update mode delete chunks idx, idx+1, ... while found.
Close(k) ==
  /\ ws[k].open
  /\ IF ws[k].add
       THEN UNCHANGED <<store, rd>>
       ELSE LET h == FirstHole(k, ws[k].idx)
            IN /\ store' = [store EXCEPT ![k] = Del(@, ws[k].idx..(h - 1))]
               /\ rd' = IF h > ws[k].idx THEN Touch(k) ELSE rd
  /\ ws' = [ws EXCEPT ![k] = ClosedW]
  \* the property: after a completed add/update the entry is exactly what was encoded
  \* (an add session on an existing key encodes nothing: every Encode fails)
  /\ ideal' = IF ws[k].ids = <<>> /\ ws[k].add THEN ideal ELSE [ideal EXCEPT ![k] = ws[k].ids]

\* Remove(key): FindOne, then collect every following item with the same Key and remove each.
Remove(k, ok) ==
  /\ ~ws[k].open
  /\ ok = Exists(k)
  /\ IF ok THEN /\ store' = [store EXCEPT ![k] = Empty]
                /\ ideal' = [ideal EXCEPT ![k] = <<>>]
                /\ rd' = Touch(k)
           ELSE UNCHANGED <<store, ideal, rd>>
  /\ UNCHANGED ws

-----------------------------------------------------------------------------
(* Reader side *)

\* FindChunk(k, start) (FindOne = start 0) followed by GetCurrentValue when found.
Open(r, k, start, got) ==
  /\ ~rd[r].open
  /\ got = Has(k, start)
  /\ rd' = IF got THEN [rd EXCEPT ![r] = [ClosedR EXCEPT !.open = TRUE, !.key = k, !.start = start, !.ci = start]]
                  ELSE rd
  /\ UNCHANGED <<store, ws, ideal>>

\* ghost bookkeeping of delivered bytes: segments <<id, from, to>>, adjacent pieces of one chunk merged
Deliver(out, id, from, to) ==
  IF to = from THEN out
  ELSE IF Len(out) > 0 /\ out[Len(out)][1] = id /\ out[Len(out)][3] = from /\ from > 0
         THEN [out EXCEPT ![Len(out)] = <<id, @[2], to>>]
         ELSE Append(out, <<id, from, to>>)

\* Read with nothing pending and no chunk at the index: (0, io.EOF)
ReadEOF(r, cap, n, eof) ==
  /\ rd[r].open /\ ~rd[r].pending /\ ~Has(rd[r].key, rd[r].ci)
  /\ n = 0 /\ eof = TRUE
  /\ rd' = [rd EXCEPT ![r].eof = TRUE]
  /\ UNCHANGED <<store, ws, ideal>>

\* Read with nothing pending: fetch chunk ci; deliver it whole (advance) or its first cap bytes (keep it pending)
ReadFetch(r, cap, n, eof) ==
  /\ rd[r].open /\ ~rd[r].pending /\ Has(rd[r].key, rd[r].ci)
  /\ LET c == store[rd[r].key][rd[r].ci]
         m == Min(cap, c.len)
     IN /\ n = m /\ eof = FALSE
        /\ rd' = IF m < c.len
                   THEN [rd EXCEPT ![r].pending = TRUE, ![r].pchunk = c, ![r].off = m,
                                   ![r].out = Deliver(@, c.id, 0, m)]
                   ELSE [rd EXCEPT ![r].ci = @ + 1, ![r].out = Deliver(@, c.id, 0, m),
                                   ![r].got = Append(@, c.id)]
  /\ UNCHANGED <<store, ws, ideal>>

\* Read while a chunk is pending and cap does not reach its end
ReadPendingMore(r, cap, n, eof) ==
  /\ rd[r].open /\ rd[r].pending
  /\ LET m == Min(cap, rd[r].pchunk.len - rd[r].off)
     IN /\ m + rd[r].off < rd[r].pchunk.len
        /\ n = m /\ eof = FALSE
        /\ rd' = [rd EXCEPT ![r].off = @ + m, ![r].out = Deliver(@, rd[r].pchunk.id, rd[r].off, rd[r].off + m)]
  /\ UNCHANGED <<store, ws, ideal>>

\* Read that delivers the rest of the pending chunk.  Intended: move on to the next chunk index.
ReadPendingLast(r, cap, n, eof) ==
  /\ rd[r].open /\ rd[r].pending
  /\ LET m == Min(cap, rd[r].pchunk.len - rd[r].off)
     IN /\ m + rd[r].off >= rd[r].pchunk.len
        /\ n = m /\ eof = FALSE
        /\ rd' = [rd EXCEPT ![r].pending = FALSE, ![r].pchunk = NoChunk, ![r].off = 0, ![r].ci = @ + 1,
                            ![r].out = Deliver(@, rd[r].pchunk.id, rd[r].off, rd[r].off + m),
                            ![r].got = Append(@, rd[r].pchunk.id)]
  /\ UNCHANGED <<store, ws, ideal>>

\* FINDING ACTION (reader.go, first branch of Read): the pending chunk is dropped, chunkIndex stays:
\* the next Read fetches the same chunk index again.
ReadPendingLastStuck(r, cap, n, eof) ==
  /\ StuckReader
  /\ rd[r].open /\ rd[r].pending
  /\ LET m == Min(cap, rd[r].pchunk.len - rd[r].off)
     IN /\ m + rd[r].off >= rd[r].pchunk.len
        /\ n = m /\ eof = FALSE
        /\ rd' = [rd EXCEPT ![r].pending = FALSE, ![r].pchunk = NoChunk, ![r].off = 0, ![r].stuck = TRUE,
                            ![r].out = Deliver(@, rd[r].pchunk.id, rd[r].off, rd[r].off + m),
                            ![r].got = Append(@, rd[r].pchunk.id)]
  /\ UNCHANGED <<store, ws, ideal>>

Read(r, cap, n, eof) == \/ ReadEOF(r, cap, n, eof) \/ ReadFetch(r, cap, n, eof) \/ ReadPendingMore(r, cap, n, eof)
                        \/ ReadPendingLast(r, cap, n, eof) \/ ReadPendingLastStuck(r, cap, n, eof)

\* json.Decoder.Decode on top of the reader: every chunk is one JSON value; the next value is returned
\* when its chunk has been delivered completely, io.EOF when the reader reported EOF and nothing is left.
Decode(r, ok, eof, id) ==
  /\ rd[r].open
  /\ IF rd[r].dec < Len(rd[r].got)
       THEN /\ ok = TRUE /\ eof = FALSE /\ id = rd[r].got[rd[r].dec + 1]
            /\ rd' = [rd EXCEPT ![r].dec = @ + 1]
       ELSE /\ rd[r].eof /\ ~rd[r].pending
            /\ ok = FALSE /\ eof = TRUE /\ id = -1
            /\ UNCHANGED rd
  /\ UNCHANGED <<store, ws, ideal>>

Done(r) == /\ rd[r].open
           /\ rd' = [rd EXCEPT ![r] = ClosedR]
           /\ UNCHANGED <<store, ws, ideal>>

-----------------------------------------------------------------------------
(* Exhaustive model: every program over Keys with at most MaxIds Encode calls, MaxChunks chunks per entry,
   chunk lengths Lens, every sequence of Read capacities from Caps, writers and readers interleaved freely *)
MaxLen == CHOOSE m \in Lens : \A x \in Lens : x <= m

MCBegin  == /\ \E k \in Keys, api \in {"Add", "AddIfNotExist", "Update", "Upsert"}, got \in BOOLEAN : Begin(k, api, got)
            /\ UNCHANGED nid
MCEncode == /\ nid < MaxIds
            /\ \E k \in Keys, n \in Lens, ok \in BOOLEAN : ws[k].idx < MaxChunks /\ Encode(k, nid, n, ok)
            /\ nid' = nid + 1
MCClose  == (\E k \in Keys : Close(k)) /\ UNCHANGED nid
MCRemove == (\E k \in Keys, ok \in BOOLEAN : Remove(k, ok)) /\ UNCHANGED nid
MCOpen   == (\E r \in Readers, k \in Keys, s \in 0..(MaxChunks - 1), got \in BOOLEAN : Open(r, k, s, got)) /\ UNCHANGED nid
MCReadEOF         == (\E r \in Readers, cap \in Caps : ReadEOF(r, cap, 0, TRUE)) /\ UNCHANGED nid
MCReadFetch       == (\E r \in Readers, cap \in Caps, n \in 1..MaxLen : ReadFetch(r, cap, n, FALSE)) /\ UNCHANGED nid
MCReadPendingMore == (\E r \in Readers, cap \in Caps, n \in 1..MaxLen : ReadPendingMore(r, cap, n, FALSE)) /\ UNCHANGED nid
MCReadPendingLast == (\E r \in Readers, cap \in Caps, n \in 1..MaxLen : ReadPendingLast(r, cap, n, FALSE)) /\ UNCHANGED nid
MCReadPendingLastStuck == (\E r \in Readers, cap \in Caps, n \in 1..MaxLen : ReadPendingLastStuck(r, cap, n, FALSE)) /\ UNCHANGED nid
MCDecodeValue == (\E r \in Readers, id \in 0..MaxIds : Decode(r, TRUE, FALSE, id)) /\ UNCHANGED nid
MCDecodeEOF   == (\E r \in Readers : Decode(r, FALSE, TRUE, -1)) /\ UNCHANGED nid
MCDone   == (\E r \in Readers : Done(r)) /\ UNCHANGED nid

Next == \/ MCBegin \/ MCEncode \/ MCClose \/ MCRemove \/ MCOpen
        \/ MCReadEOF \/ MCReadFetch \/ MCReadPendingMore \/ MCReadPendingLast \/ MCReadPendingLastStuck
        \/ MCDecodeValue \/ MCDecodeEOF \/ MCDone

Spec == Init /\ [][Next]_vars

Bound == \A r \in Readers : Len(rd[r].out) <= MaxChunks + 2

-----------------------------------------------------------------------------
(* Properties *)

Range(s) == {s[i] : i \in DOMAIN s}
Card(k) == Cardinality(DOMAIN store[k])

\* chunk indices of every entry are 0..n-1
Contiguous == \A k \in Keys : DOMAIN store[k] = 0..(Card(k) - 1)

Ids(k) == [i \in 1..Card(k) |-> store[k][i - 1].id]

\* an entry nobody is writing holds exactly the values of the last completed add/update, nothing after Remove
EntryIsWhatWasWritten == \A k \in Keys : ~ws[k].open => (Contiguous => Ids(k) = ideal[k])

\* what a reader has delivered is a prefix of the concatenation of the chunks from its start index:
\* all segments but the last are whole chunks, in order; the last may be a proper prefix of its chunk
ReadBackExactFor(RS) ==
  \A r \in RS :
    (rd[r].open /\ rd[r].clean) =>
      LET o == rd[r].out
          k == rd[r].key
          s == rd[r].start
      IN /\ \A j \in 1..Len(o) :
               /\ Has(k, s + j - 1)
               /\ o[j][1] = store[k][s + j - 1].id
               /\ o[j][2] = 0
               /\ IF j < Len(o) THEN o[j][3] = store[k][s + j - 1].len
                                ELSE o[j][3] <= store[k][s + j - 1].len
         /\ rd[r].eof => /\ Len(o) = Card(k) - s
                         /\ (Len(o) > 0 => o[Len(o)][3] = store[k][s + Len(o) - 1].len)

\* values handed out by Decode are the values of the entry, in order, each once
DecodedInOrderFor(RS) ==
  \A r \in RS :
    (rd[r].open /\ rd[r].clean) =>
      \A j \in 1..Len(rd[r].got) : Has(rd[r].key, rd[r].start + j - 1)
                                   /\ rd[r].got[j] = store[rd[r].key][rd[r].start + j - 1].id

NotStuck == {r \in Readers : ~rd[r].stuck}
ReadBackExact     == ReadBackExactFor(NotStuck)
DecodedInOrder    == DecodedInOrderFor(NotStuck)
ReadBackExactAll  == ReadBackExactFor(Readers)
DecodedInOrderAll == DecodedInOrderFor(Readers)
AnyStuck == \E r \in Readers : rd[r].stuck

TypeOK == /\ \A k \in Keys : ws[k].idx >= 0
          /\ \A r \in Readers : rd[r].off >= 0 /\ rd[r].dec <= Len(rd[r].got)
=============================================================================
