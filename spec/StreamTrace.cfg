SPECIFICATION TraceSpec
CONSTANTS
  Keys = {"k0", "k1", "k2", "k3"}
  Readers = {0, 1, 2}
  StuckReader = TRUE
  Lens = {1}
  Caps = {1}
  MaxChunks = 1
  MaxIds = 1
INVARIANTS TypeOK Contiguous EntryIsWhatWasWritten ReadBackExact DecodedInOrder
CONSTRAINT HighWater
POSTCONDITION TraceAccepted
CHECK_DEADLOCK FALSE
