---------------------------- MODULE StreamTrace ----------------------------
(* Trace validation for C31: events recorded by harness/cmd/stream from the real
   streamingdata.StreamingDataStore (filesystem backend) are consumed line by line; each
   line must be an enabled action of Stream with exactly the logged arguments and results.
   Observe events carry a scan of the underlying B-tree: it must equal `store`. *)
EXTENDS Stream, Json

VARIABLES l,        \* next trace line to consume
          su         \* some reader of this trace took the finding action

Trace == ndJsonDeserialize("trace.ndjson")

tvars == <<vars, l, su>>

Track == su' = (su \/ \E r \in Readers : rd'[r].stuck)

IsEv(e) == l <= Len(Trace) /\ Trace[l].ev = e /\ l' = l + 1
E == Trace[l]

TraceInit == /\ l = 1 /\ TLCSet(1, 1)
             /\ Init /\ su = FALSE

TraceReset == /\ IsEv("Reset")
              /\ store' = [k \in Keys |-> Empty]
              /\ ws' = [k \in Keys |-> ClosedW]
              /\ rd' = [r \in Readers |-> ClosedR]
              /\ ideal' = [k \in Keys |-> <<>>]
              /\ UNCHANGED nid /\ su' = FALSE

TraceBegin  == IsEv("Begin")  /\ Begin(E.k, E.api, E.got) /\ UNCHANGED nid /\ Track
TraceEncode == IsEv("Encode") /\ Encode(E.k, E.id, E.len, E.ok) /\ UNCHANGED nid /\ Track
TraceClose  == IsEv("Close")  /\ E.ok /\ Close(E.k) /\ UNCHANGED nid /\ Track
TraceRemove == IsEv("Remove") /\ Remove(E.k, E.ok) /\ UNCHANGED nid /\ Track
TraceOpen   == IsEv("Open")   /\ Open(E.r, E.k, E.start, E.got) /\ UNCHANGED nid /\ Track
TraceRead   == IsEv("Read")   /\ Read(E.r, E.cap, E.n, E.eof) /\ UNCHANGED nid /\ Track
\* `intact`: the decoded value is, byte for byte, the value the driver generated for the id it carries
TraceDecode == IsEv("Decode") /\ E.intact /\ Decode(E.r, E.ok, E.eof, E.id) /\ UNCHANGED nid /\ Track
TraceDone   == IsEv("Done")   /\ Done(E.r) /\ UNCHANGED nid /\ Track
\* transaction boundaries do not change the abstract state (commit must succeed)
TraceTx     == IsEv("Tx") /\ E.ok /\ UNCHANGED <<vars, su>>

\* scan of the B-tree (fresh transaction): every item <<key, chunk index, id decoded from the bytes, length>>
StoreAsSet == UNION {{<<k, i, store[k][i].id, store[k][i].len>> : i \in DOMAIN store[k]} : k \in Keys}
TraceObserve == /\ IsEv("Observe")
                /\ E.intact
                /\ Len(E.chunks) = Cardinality(StoreAsSet)
                /\ {E.chunks[j] : j \in 1..Len(E.chunks)} = StoreAsSet
                /\ UNCHANGED <<vars, su>>

\* end of a trace: report whether this explanation of the trace needed the finding action
TraceEnd == IsEv("End") /\ PrintT(<<"END", E.name, su>>) /\ UNCHANGED <<vars, su>>

TraceNext == \/ TraceEnd \/ TraceReset \/ TraceBegin \/ TraceEncode \/ TraceClose \/ TraceRemove \/ TraceOpen
             \/ TraceRead \/ TraceDecode \/ TraceDone \/ TraceTx \/ TraceObserve

TraceSpec == TraceInit /\ [][TraceNext]_tvars

HighWater == IF l > TLCGet(1) THEN TLCSet(1, l) ELSE TRUE
TraceAccepted == /\ PrintT(<<"HWM", TLCGet(1) - 1>>)
                 /\ TLCGet(1) - 1 = Len(Trace)
=============================================================================
