SPECIFICATION Spec
CONSTANTS
  Keys = {"a", "b"}
  Readers = {1}
  StuckReader = FALSE
  Lens = {1, 3}
  Caps = {1, 3}
  MaxChunks = 3
  MaxIds = 3
INVARIANTS TypeOK Contiguous EntryIsWhatWasWritten ReadBackExact DecodedInOrder
CONSTRAINT Bound
CHECK_DEADLOCK FALSE
