SPECIFICATION Spec
CONSTANTS
  Keys = {"a"}
  Readers = {1}
  StuckReader = TRUE
  Lens = {1, 3}
  Caps = {1, 3}
  MaxChunks = 2
  MaxIds = 2
INVARIANTS TypeOK Contiguous EntryIsWhatWasWritten ReadBackExact DecodedInOrder DecodedInOrderAll
CONSTRAINT Bound
CHECK_DEADLOCK FALSE
