SPECIFICATION Spec
CONSTANTS
  Keys = {"a", "b"}
  Readers = {1}
  StuckReader = FALSE
  Lens = {1, 3}
  Caps = {1, 2, 4}
  MaxChunks = 3
  MaxIds = 4
INVARIANTS TypeOK Contiguous EntryIsWhatWasWritten ReadBackExact DecodedInOrder
CONSTRAINT Bound
CHECK_DEADLOCK FALSE
