----------------------------- MODULE TextIndex -----------------------------
(* C32 - the BM25 text index of /repo/search (index.go) over four unique B-trees:
     postings   "term|docID" -> frequency        tf[d][t]
     term_stats term         -> document count   df[t]
     doc_stats  docID        -> document length  dl[d]
     global     total_docs, total_len            N, tl
   One action per public call.  AddDoc follows Index.Add step by step (doc stats, one posting and
   one df increment per distinct token, the two global counters).  Search follows Index.Search:
   query tokens with multiplicity, tokens without term_stats entry skipped, for every other token
   the run of postings keys starting at the first key >= "term|" that carry the prefix "term|",
   the document id being the rest of the key; results collected in a map (each document once).
   Transactions: everything happens in the working copy `cur`; Commit publishes it, Rollback drops it.

   UseScan = TRUE  (exhaustive model): terms and ids are sequences over a small ordered alphabet in which
                   Sep ("|", 0x7C) sorts after ASCII letters/digits and before every non-ASCII letter, as in
                   the byte order the B-tree uses; postings are looked up through the sorted key set exactly
                   as the code does, so `ScanExact`/`SearchExact` say that the prefix scan is exact
                   (no leakage from terms that extend the query term, ids may contain Sep).
   UseScan = FALSE (trace validation): terms and ids are opaque strings; postings are looked up in tf.
   The BM25 number itself (log, floating point) is outside TLA+: the conformance driver computes the
   documented formula from the integer statistics that the Observe action has just validated and logs the
   outcome of the comparison; Search requires that outcome to be TRUE.  *)
EXTENDS Integers, Sequences, FiniteSets, TLC

CONSTANTS UseScan,     \* BOOLEAN, see above
          Docs,        \* exhaustive model only: candidate document ids (sequences over the alphabet)
          Terms,       \* exhaustive model only: vocabulary (sequences over the alphabet without Sep)
          Sep,         \* exhaustive model only: the separator symbol
          MaxToks,     \* exhaustive model only: tokens per document / per query
          MaxDocs      \* exhaustive model only: documents per behaviour

VARIABLES cur,    \* working index: [dl, tf, df, N, tl]
          com,    \* committed index
          tx      \* "none", "w", "r"

vars == <<cur, com, tx>>

EmptyFn == [x \in {} |-> 0]
EmptyIndex == [dl |-> EmptyFn, tf |-> EmptyFn, df |-> EmptyFn, N |-> 0, tl |-> 0]

Range(s) == {s[i] : i \in DOMAIN s}
Count(s, t) == Cardinality({i \in DOMAIN s : s[i] = t})

Init == /\ cur = EmptyIndex /\ com = EmptyIndex /\ tx = "none"

TxBegin(mode) == /\ tx = "none" /\ mode \in {"w", "r"}
                 /\ tx' = mode
                 /\ UNCHANGED <<cur, com>>

TxCommit == /\ tx # "none"
            /\ com' = cur /\ tx' = "none"
            /\ UNCHANGED cur

TxRollback == /\ tx # "none"
              /\ cur' = com /\ tx' = "none"
              /\ UNCHANGED com

\* Index.Add(docID, text) with toks = Tokenize(text); documents are distinct (the property's premise)
AddDoc(d, toks) ==
  /\ tx = "w"
  /\ d \notin DOMAIN cur.dl
  /\ LET terms == Range(toks)
     IN cur' = [dl |-> (d :> Len(toks)) @@ cur.dl,
                tf |-> (d :> [t \in terms |-> Count(toks, t)]) @@ cur.tf,
                df |-> [t \in (DOMAIN cur.df) \cup terms |->
                          (IF t \in DOMAIN cur.df THEN cur.df[t] ELSE 0) + (IF t \in terms THEN 1 ELSE 0)],
                N  |-> cur.N + 1,
                tl |-> cur.tl + Len(toks)]
  /\ UNCHANGED <<com, tx>>

-----------------------------------------------------------------------------
(* postings as the B-tree sees them: keys term ++ <<Sep>> ++ id in lexicographic order *)
RECURSIVE LexLeq(_, _)
LexLeq(a, b) == IF a = <<>> THEN TRUE
                ELSE IF b = <<>> THEN FALSE
                ELSE IF a[1] < b[1] THEN TRUE
                ELSE IF a[1] > b[1] THEN FALSE
                ELSE LexLeq(Tail(a), Tail(b))
HasPrefix(k, p) == Len(k) >= Len(p) /\ SubSeq(k, 1, Len(p)) = p
Key(t, d) == t \o <<Sep>> \o d
PostingPairs == {<<t, d>> \in (DOMAIN cur.df) \X (DOMAIN cur.dl) : t \in DOMAIN cur.tf[d]}
PostingKeys == {Key(p[1], p[2]) : p \in PostingPairs}

\* ids reached by: position at the first key >= "t|", walk forward while the key starts with "t|"
ScanIds(t) ==
  LET p == t \o <<Sep>>
      ge == {k \in PostingKeys : LexLeq(p, k)}
      run == {k \in ge : \A k2 \in ge : LexLeq(k2, k) => HasPrefix(k2, p)}
  IN {SubSeq(k, Len(p) + 1, Len(k)) : k \in run}

DocsWith(t) == {d \in DOMAIN cur.dl : t \in DOMAIN cur.tf[d]}
Postings(t) == IF UseScan THEN ScanIds(t) ELSE DocsWith(t)

\* what Index.Search collects in its score map
SearchResult(q) ==
  IF Len(q) = 0 \/ cur.N = 0 THEN {}
  ELSE UNION {Postings(t) : t \in Range(q) \cap DOMAIN cur.df}

\* Search(query) with q = Tokenize(query); ids = DocIDs of the returned slice, in order;
\* scoresOk / orderOk: outcome of the numeric comparison done by the driver (see header)
Search(q, ids, scoresOk, orderOk) ==
  /\ tx # "none"
  /\ Len(ids) = Cardinality(Range(ids))          \* each document once
  /\ Range(ids) = SearchResult(q)                \* exactly the matching documents
  /\ scoresOk /\ orderOk
  /\ UNCHANGED vars

-----------------------------------------------------------------------------
(* Exhaustive model *)
SeqsUpTo(S, n) == UNION {[1..k -> S] : k \in 0..n}
RECURSIVE SetToSeq(_)
SetToSeq(S) == IF S = {} THEN <<>> ELSE LET x == CHOOSE x \in S : TRUE IN <<x>> \o SetToSeq(S \ {x})

\* alphabet: 1 "a", 2 "b" < Sep = 3 "|" < 4 "é";  "a" is a prefix of "aa" and "aé"; ids may contain Sep, one is a bare Sep
MCTerms == {<<1>>, <<1, 1>>, <<1, 4>>, <<2>>}
MCDocs  == {<<1>>, <<3>>, <<1, 3, 1>>, <<4, 1>>}

MCBegin    == \E m \in {"w", "r"} : TxBegin(m)
MCCommit   == TxCommit
MCRollback == TxRollback
MCAddDoc   == /\ Cardinality(DOMAIN cur.dl) < MaxDocs
              /\ \E d \in Docs, toks \in SeqsUpTo(Terms, MaxToks) : AddDoc(d, toks)
MCSearch   == \E q \in SeqsUpTo(Terms, MaxToks) : Search(q, SetToSeq(SearchResult(q)), TRUE, TRUE)

Next == MCBegin \/ MCCommit \/ MCRollback \/ MCAddDoc \/ MCSearch
Spec == Init /\ [][Next]_vars

-----------------------------------------------------------------------------
(* Properties *)
Sum(f) == LET RECURSIVE S(_)
              S(D) == IF D = {} THEN 0 ELSE LET x == CHOOSE x \in D : TRUE IN f[x] + S(D \ {x})
          IN S(DOMAIN f)

\* the statistics BM25 is computed from are what their names say
StatsOf(ix) ==
  /\ ix.N = Cardinality(DOMAIN ix.dl)
  /\ ix.tl = Sum(ix.dl)
  /\ DOMAIN ix.tf = DOMAIN ix.dl
  /\ \A d \in DOMAIN ix.dl : ix.dl[d] = Sum(ix.tf[d]) /\ \A t \in DOMAIN ix.tf[d] : ix.tf[d][t] > 0
  /\ DOMAIN ix.df = UNION {DOMAIN ix.tf[d] : d \in DOMAIN ix.dl}
  /\ \A t \in DOMAIN ix.df : ix.df[t] = Cardinality({d \in DOMAIN ix.dl : t \in DOMAIN ix.tf[d]})
StatsConsistent == StatsOf(cur) /\ StatsOf(com)

\* a search returns each document containing at least one query term, and no other
Matching(q) == {d \in DOMAIN cur.dl : \E i \in DOMAIN q : q[i] \in DOMAIN cur.tf[d]}

\* (exhaustive model) distinct postings have distinct keys, and the prefix scan finds exactly the postings of the term
KeyInjective == \A p1, p2 \in PostingPairs : Key(p1[1], p1[2]) = Key(p2[1], p2[2]) => p1 = p2
ScanExact == \A t \in DOMAIN cur.df : ScanIds(t) = DocsWith(t)
SearchIsMatching == \A q \in SeqsUpTo(Terms, MaxToks) : SearchResult(q) = Matching(q)

TypeOK == /\ tx \in {"none", "w", "r"}
          /\ cur.N >= 0 /\ cur.tl >= 0
          /\ (tx = "none" => cur = com)
=============================================================================
