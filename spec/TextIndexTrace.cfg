SPECIFICATION TraceSpec
CONSTANTS
  UseScan = FALSE
  Sep = "|"
  Terms = {}
  Docs = {}
  MaxToks = 0
  MaxDocs = 0
INVARIANTS TypeOK StatsConsistent
CONSTRAINT HighWater
POSTCONDITION TraceAccepted
CHECK_DEADLOCK FALSE
