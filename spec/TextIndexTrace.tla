-------------------------- MODULE TextIndexTrace --------------------------
(* Trace validation for C32: events recorded by harness/cmd/textindex from the real search.Index
   (filesystem backend).  Documents arrive as token lists produced by the real tokenizer; Observe
   events carry the four stores read back item by item and must equal the model's statistics; Search
   events carry the returned ids in order and the outcome of the numeric BM25 comparison. *)
EXTENDS TextIndex, Json

VARIABLE l          \* next trace line to consume

Trace == ndJsonDeserialize("trace.ndjson")

tvars == <<vars, l>>

IsEv(e) == l <= Len(Trace) /\ Trace[l].ev = e /\ l' = l + 1
E == Trace[l]

TraceInit == /\ l = 1 /\ TLCSet(1, 1) /\ Init

TraceReset == /\ IsEv("Reset")
              /\ cur' = EmptyIndex /\ com' = EmptyIndex /\ tx' = "none"

TraceBegin    == IsEv("TxBegin") /\ E.ok /\ TxBegin(E.mode)
TraceCommit   == IsEv("TxCommit") /\ E.ok /\ TxCommit
TraceRollback == IsEv("TxRollback") /\ E.ok /\ TxRollback
TraceAddDoc   == IsEv("AddDoc") /\ E.ok /\ AddDoc(E.d, E.toks)
TraceSearch   == IsEv("Search") /\ E.ok /\ Search(E.q, E.ids, E.scores_ok, E.order_ok)

SeqSet(s) == {s[j] : j \in 1..Len(s)}
\* the four B-trees read back (inside the transaction that is open): they are the model's statistics
TraceObserve ==
  /\ IsEv("Observe") /\ E.ok
  /\ tx # "none"
  /\ LET post == UNION {{<<t, d, cur.tf[d][t]>> : t \in DOMAIN cur.tf[d]} : d \in DOMAIN cur.dl}
         dfs  == {<<t, cur.df[t]>> : t \in DOMAIN cur.df}
         dls  == {<<d, cur.dl[d]>> : d \in DOMAIN cur.dl}
     IN /\ Len(E.post) = Cardinality(post) /\ SeqSet(E.post) = post
        /\ Len(E.df) = Cardinality(dfs) /\ SeqSet(E.df) = dfs
        /\ Len(E.dl) = Cardinality(dls) /\ SeqSet(E.dl) = dls
        /\ E.n = cur.N /\ E.tl = cur.tl
  /\ UNCHANGED vars

TraceNext == TraceReset \/ TraceBegin \/ TraceCommit \/ TraceRollback \/ TraceAddDoc \/ TraceSearch \/ TraceObserve

TraceSpec == TraceInit /\ [][TraceNext]_tvars

HighWater == IF l > TLCGet(1) THEN TLCSet(1, l) ELSE TRUE
TraceAccepted == /\ PrintT(<<"HWM", TLCGet(1) - 1>>)
                 /\ TLCGet(1) - 1 = Len(Trace)
=============================================================================
