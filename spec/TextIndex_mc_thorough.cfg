SPECIFICATION Spec
CONSTANTS
  UseScan = TRUE
  Sep = 3
  Terms <- MCTerms
  Docs <- MCDocs
  MaxToks = 2
  MaxDocs = 3
INVARIANTS TypeOK StatsConsistent KeyInjective ScanExact SearchIsMatching
CHECK_DEADLOCK FALSE
