------------------------ MODULE TwoPhaseParticipants ------------------------
(* Control flow of sop.SinglePhaseTransaction.{Begin,Commit,Rollback} (/repo/transaction.go)
   over SOP's own two-phase transaction (who = 0) and n external participants (who = 1..n).
   One action per call into a participant; every call may succeed or fail.
   The user drives: Begin, then Commit or Rollback (Rollback also after a failed Begin).  *)
EXTENDS Naturals, Sequences, FiniteSets, TLC, Json

CONSTANTS MaxP          \* maximum number of external participants

VARIABLES n,        \* number of external participants attached
          pc,       \* control point inside the wrapper
          idx,      \* participant index of the loop in progress
          inCommit, \* the rollback fan-out in progress was started by Commit
          rbErr,    \* Rollback: lastErr # nil
          retOk,    \* value the API call in progress is about to return
          api,      \* API call in progress ("" when idle)
          begun,    \* Begin returned (ok or not)
          beginOk,
          log       \* history: every participant call and every API return, in order

vars == <<n, pc, idx, inCommit, rbErr, retOk, api, begun, beginOk, log>>

Ops == {"Begin", "P1", "P2", "Rb"}

Init == /\ n \in 0..MaxP
        /\ pc = "idle" /\ idx = 0 /\ inCommit = FALSE /\ rbErr = FALSE /\ retOk = TRUE
        /\ api = "" /\ begun = FALSE /\ beginOk = FALSE /\ log = <<>>

\* The call the wrapper makes next, as <<who, op>>
NextCall ==
  CASE pc = "B_sop"    -> <<0, "Begin">>
    [] pc = "B_part"   -> <<idx, "Begin">>
    [] pc = "C_p1sop"  -> <<0, "P1">>
    [] pc = "C_p1part" -> <<idx, "P1">>
    [] pc = "C_p2sop"  -> <<0, "P2">>
    [] pc = "C_p2part" -> <<idx, "P2">>
    [] pc = "R_sop"    -> <<0, "Rb">>
    [] pc = "R_part"   -> <<idx, "Rb">>
    [] OTHER           -> <<99, "none">>

CallRec(w, op, ok) == [k |-> "call", who |-> w, op |-> op, ok |-> ok]
RetRec(a, ok)      == [k |-> "ret", who |-> 0, op |-> a, ok |-> ok]

Goto(p, i) == pc' = p /\ idx' = i
Return(ok) == pc' = "ret" /\ idx' = 0 /\ retOk' = ok

StartRollback == /\ pc' = "R_sop" /\ idx' = 0 /\ rbErr' = FALSE

\* User invokes an API method of the wrapper.
Invoke(a) ==
  /\ pc = "idle"
  /\ \/ a = "Begin" /\ ~begun /\ Goto("B_sop", 0) /\ UNCHANGED <<inCommit, rbErr>>
     \/ a = "Commit" /\ begun /\ beginOk /\ Goto("C_p1sop", 0) /\ inCommit' = TRUE /\ UNCHANGED rbErr
     \/ a = "Rollback" /\ begun /\ Goto("R_sop", 0) /\ inCommit' = FALSE /\ rbErr' = FALSE
  /\ api' = a
  /\ UNCHANGED <<n, retOk, begun, beginOk, log>>

\* The wrapper calls participant w's op and gets ok back.
Call(w, op, ok) ==
  /\ NextCall = <<w, op>>
  /\ log' = Append(log, CallRec(w, op, ok))
  /\ CASE pc = "B_sop" ->
            /\ IF ~ok THEN Return(FALSE) ELSE IF n = 0 THEN Return(TRUE) ELSE Goto("B_part", 1) /\ UNCHANGED retOk
            /\ UNCHANGED <<rbErr>>
       [] pc = "B_part" ->
            /\ IF ~ok THEN Return(FALSE) ELSE IF idx = n THEN Return(TRUE) ELSE Goto("B_part", idx + 1) /\ UNCHANGED retOk
            /\ UNCHANGED <<rbErr>>
       [] pc = "C_p1sop" ->
            IF ~ok THEN StartRollback /\ UNCHANGED retOk
            ELSE (IF n = 0 THEN Goto("C_p2sop", 0) ELSE Goto("C_p1part", 1)) /\ UNCHANGED <<retOk, rbErr>>
       [] pc = "C_p1part" ->
            IF ~ok THEN StartRollback /\ UNCHANGED retOk
            ELSE (IF idx = n THEN Goto("C_p2sop", 0) ELSE Goto("C_p1part", idx + 1)) /\ UNCHANGED <<retOk, rbErr>>
       [] pc = "C_p2sop" ->
            IF ~ok THEN StartRollback /\ UNCHANGED retOk
            ELSE (IF n = 0 THEN Return(TRUE) ELSE Goto("C_p2part", 1) /\ UNCHANGED retOk) /\ UNCHANGED rbErr
       [] pc = "C_p2part" ->   \* result ignored
            (IF idx = n THEN Return(TRUE) ELSE Goto("C_p2part", idx + 1) /\ UNCHANGED retOk) /\ UNCHANGED rbErr
       [] pc = "R_sop" ->
            /\ rbErr' = ~ok
            /\ IF n = 0 THEN Return(IF inCommit THEN FALSE ELSE ok) ELSE Goto("R_part", 1) /\ UNCHANGED retOk
       [] pc = "R_part" ->
            /\ rbErr' = (IF ~ok THEN TRUE ELSE rbErr)
            /\ IF idx = n THEN Return(IF inCommit THEN FALSE ELSE ~rbErr')
               ELSE Goto("R_part", idx + 1) /\ UNCHANGED retOk
  /\ UNCHANGED <<n, inCommit, api, begun, beginOk>>

\* The API call returns to the user.
Ret(a, ok) ==
  /\ pc = "ret" /\ a = api /\ ok = retOk
  /\ log' = Append(log, RetRec(a, ok))
  /\ pc' = IF a = "Begin" THEN "idle" ELSE "done"
  /\ begun' = TRUE
  /\ beginOk' = IF a = "Begin" THEN ok ELSE beginOk
  /\ api' = ""
  /\ UNCHANGED <<n, idx, inCommit, rbErr, retOk>>

Next == \/ \E a \in {"Begin", "Commit", "Rollback"} : Invoke(a)
        \/ \E w \in 0..MaxP, op \in Ops, ok \in BOOLEAN : Call(w, op, ok)
        \/ \E a \in {"Begin", "Commit", "Rollback"}, ok \in BOOLEAN : Ret(a, ok)

Spec == Init /\ [][Next]_vars

-----------------------------------------------------------------------------
(* Properties (C16) over the history *)
Who == 0..n
Before(k, r) == \E j \in 1..(k-1) : log[j] = r

\* no participant's second phase runs unless every first phase succeeded and SOP's second phase succeeded
Phase2OnlyAfterAll ==
  \A k \in 1..Len(log) :
     (log[k].k = "call" /\ log[k].op = "P2" /\ log[k].who > 0) =>
        /\ \A w \in Who : Before(k, CallRec(w, "P1", TRUE))
        /\ Before(k, CallRec(0, "P2", TRUE))

\* SOP's own phase 2 only after every phase 1 succeeded
SopPhase2AfterPhase1 ==
  \A k \in 1..Len(log) :
     (log[k].k = "call" /\ log[k].op = "P2" /\ log[k].who = 0) =>
        \A w \in Who : Before(k, CallRec(w, "P1", TRUE))

CommitFailed == \E k \in 1..Len(log) : log[k] = RetRec("Commit", FALSE)
CommitOk     == \E k \in 1..Len(log) : log[k] = RetRec("Commit", TRUE)

\* a failing Commit has asked SOP and every participant to roll back, before returning
FailureRollsBackAll ==
  \A k \in 1..Len(log) :
     log[k] = RetRec("Commit", FALSE) =>
        \A w \in Who : \E j \in 1..(k-1) : log[j].k = "call" /\ log[j].op = "Rb" /\ log[j].who = w

\* Commit returns success exactly when SOP's second phase succeeded, and then nobody is rolled back
SuccessIffSopPhase2 ==
  /\ CommitOk => (/\ \E k \in 1..Len(log) : log[k] = CallRec(0, "P2", TRUE)
                  /\ \A w \in Who : \E k \in 1..Len(log) : log[k].k = "call" /\ log[k].op = "P2" /\ log[k].who = w
                  /\ \A k \in 1..Len(log) : log[k].op # "Rb")
  /\ CommitFailed => ~ \E k \in 1..Len(log) : log[k] = CallRec(0, "P2", TRUE)

\* a user Rollback reaches everybody, errors notwithstanding
RollbackFanOutComplete ==
  \A k \in 1..Len(log) :
     (log[k].k = "ret" /\ log[k].op = "Rollback") =>
        \A w \in Who : \E j \in 1..(k-1) : log[j].k = "call" /\ log[j].op = "Rb" /\ log[j].who = w

TypeOK == /\ n \in 0..MaxP /\ idx \in 0..MaxP
          /\ pc \in {"idle","B_sop","B_part","C_p1sop","C_p1part","C_p2sop","C_p2part","R_sop","R_part","ret","done"}

\* emit every maximal behaviour (used to compare the spec's behaviour set with the code's)
EmitDone == (pc = "done") => PrintT(<<"BEH", ToJson([n |-> n, log |-> log])>>)
=============================================================================
