SPECIFICATION TraceSpec
CONSTANTS MaxP = 3
INVARIANTS Phase2OnlyAfterAll SopPhase2AfterPhase1 FailureRollsBackAll SuccessIffSopPhase2 RollbackFanOutComplete
CONSTRAINT HighWater
POSTCONDITION TraceAccepted
CHECK_DEADLOCK FALSE
