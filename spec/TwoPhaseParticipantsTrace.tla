--------------------- MODULE TwoPhaseParticipantsTrace ---------------------
(* Trace validation: call logs recorded from the real sop.SinglePhaseTransaction are
   consumed line by line; each line must be an enabled action of TwoPhaseParticipants. *)
EXTENDS TwoPhaseParticipants

VARIABLE l          \* next trace line to consume

Trace == ndJsonDeserialize("trace.ndjson")

tvars == <<vars, l>>

IsEv(e) == l <= Len(Trace) /\ Trace[l].ev = e /\ l' = l + 1

TraceInit == /\ l = 1 /\ TLCSet(1, 1)
             /\ n = 0 /\ pc = "setup" /\ idx = 0 /\ inCommit = FALSE /\ rbErr = FALSE /\ retOk = TRUE
             /\ api = "" /\ begun = FALSE /\ beginOk = FALSE /\ log = <<>>

TraceReset == /\ IsEv("Reset")
              /\ n' = 0 /\ pc' = "setup" /\ idx' = 0 /\ inCommit' = FALSE /\ rbErr' = FALSE /\ retOk' = TRUE
              /\ api' = "" /\ begun' = FALSE /\ beginOk' = FALSE /\ log' = <<>>

TraceSetup == /\ IsEv("Setup") /\ pc = "setup"
              /\ n' = Trace[l].n /\ pc' = "idle"
              /\ UNCHANGED <<idx, inCommit, rbErr, retOk, api, begun, beginOk, log>>

TraceInvoke == IsEv("Invoke") /\ Invoke(Trace[l].api)
TraceCall   == IsEv("Call") /\ Call(Trace[l].who, Trace[l].op, Trace[l].ok)
TraceRet    == IsEv("Ret") /\ Ret(Trace[l].api, Trace[l].ok)

TraceNext == TraceReset \/ TraceSetup \/ TraceInvoke \/ TraceCall \/ TraceRet

TraceSpec == TraceInit /\ [][TraceNext]_tvars

HighWater == IF l > TLCGet(1) THEN TLCSet(1, l) ELSE TRUE
TraceAccepted == /\ PrintT(<<"HWM", TLCGet(1) - 1>>)
                 /\ TLCGet(1) - 1 = Len(Trace)
=============================================================================
