SPECIFICATION Spec
CONSTANTS MaxP = 3
INVARIANTS TypeOK Phase2OnlyAfterAll SopPhase2AfterPhase1 FailureRollsBackAll SuccessIffSopPhase2 RollbackFanOutComplete EmitDone
CHECK_DEADLOCK FALSE
