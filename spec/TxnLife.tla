------------------------------- MODULE TxnLife -------------------------------
(* C14: transaction modes and life cycle.  One transaction object of a given mode (w = ForWriting, r = ForReading,
   n = NoCheck) receives an arbitrary sequence of life-cycle calls and store operations; a seeded store "s"
   (holding key 1) exists beforehand.  Persistent state the property talks about: does key 2 exist in s (hasK2), does
   the store "n" exist (hasN).  Every call is an action computing the result the property demands:
     - store operations succeed only between Begin and the end of the transaction;
     - a transaction that is not a writer never changes stored data (whatever it is asked to do);
     - a committed transaction cannot be rolled back; a finished one cannot be begun or committed again to
       different effect.
   Where the statement leaves a result open (e.g. Rollback of a never-begun transaction, Close) the action accepts
   either result.  *)
EXTENDS Integers, Sequences, TLC, Json

VARIABLES mode,      \* "w" | "r" | "n"
          phase,     \* "new" | "begun" | "p1" | "done"
          committed, \* Commit / Phase2 returned success
          opened,    \* a B-tree handle on "s" was obtained
          pendK2,    \* the transaction added key 2 (not yet committed)
          pendN,     \* the transaction created store "n" (not yet committed)
          hasK2, hasN, \* persistent state
          path       \* calls so far (history; hidden from the state space by VIEW)

vars == <<mode, phase, committed, opened, pendK2, pendN, hasK2, hasN, path>>
view == <<mode, phase, committed, opened, pendK2, pendN, hasK2, hasN>>

Calls == {"Begin", "Open", "New", "Add", "Get", "Commit", "Rollback", "P1", "P2", "Close"}

Init == /\ mode \in {"w", "r", "n"} /\ phase = "new" /\ committed = FALSE /\ opened = FALSE
        /\ pendK2 = FALSE /\ pendN = FALSE /\ hasK2 = FALSE /\ hasN = FALSE /\ path = <<>>

Inside == phase \in {"begun", "p1"}
Writer == mode = "w"

\* end of the transaction without installing anything
Abort == /\ phase' = "done" /\ pendK2' = FALSE /\ pendN' = FALSE /\ UNCHANGED <<hasK2, hasN, committed>>
\* the commit point: a writer's pending changes become persistent; other modes install nothing
Install == /\ phase' = "done" /\ committed' = TRUE
           /\ hasK2' = (hasK2 \/ (Writer /\ pendK2)) /\ hasN' = (hasN \/ (Writer /\ pendN))
           /\ pendK2' = FALSE /\ pendN' = FALSE
Same == UNCHANGED <<phase, committed, pendK2, pendN, hasK2, hasN>>

Do(call, ok) ==
  /\ path' = Append(path, call)
  /\ UNCHANGED mode
  /\ CASE call = "Begin" ->
            /\ ok = (phase = "new")
            /\ IF ok THEN phase' = "begun" /\ UNCHANGED <<committed, pendK2, pendN, hasK2, hasN>> ELSE Same
            /\ UNCHANGED opened
       [] call = "Open" ->                       \* OpenBtree("s")
            /\ IF phase = "p1" THEN TRUE ELSE ok = (phase = "begun")      \* after phase 1 the statement leaves store calls open
            /\ opened' = (opened \/ ok) /\ Same
       [] call = "New" ->                        \* NewBtree("n"): registers the store at once, owned by the transaction
            /\ IF phase = "p1" THEN TRUE ELSE ok = (phase = "begun")
            /\ IF ok THEN pendN' = TRUE /\ UNCHANGED <<phase, committed, pendK2, hasK2, hasN>> ELSE Same
            /\ UNCHANGED opened
       [] call = "Add" ->                        \* Add(2, ..) through the handle on "s"
            /\ opened
            /\ IF phase = "p1" /\ Writer THEN TRUE ELSE ok = (phase = "begun" /\ Writer)
            /\ IF ok /\ phase = "begun" THEN pendK2' = TRUE /\ UNCHANGED <<phase, committed, pendN, hasK2, hasN>>
               ELSE IF ok THEN pendK2' \in {pendK2, TRUE} /\ UNCHANGED <<phase, committed, pendN, hasK2, hasN>>  \* after phase 1: open
               ELSE IF Inside THEN (Abort \/ Same)   \* a write in a non-writer transaction ends it (or is merely refused)
               ELSE Same
            /\ UNCHANGED opened
       [] call = "Get" ->                        \* Find(1) + GetCurrentValue through the handle on "s"
            /\ opened
            /\ IF phase = "p1" THEN TRUE ELSE ok = (phase = "begun")
            /\ IF ~ok /\ Inside THEN (Abort \/ Same) ELSE Same
            /\ UNCHANGED opened
       [] call = "Commit" ->
            /\ IF phase = "begun" THEN ok /\ Install          \* no faults, no contention here: a commit succeeds
               ELSE IF phase = "p1" THEN (ok /\ (Install \/ Abort)) \/ (~ok /\ Abort)   \* Commit() after an explicit Phase1Commit:
                                                           \* not covered by this property (a success that installs nothing is C01's business)
               ELSE ~ok /\ Same                                \* never begun / finished: refused, to no effect
            /\ UNCHANGED opened
       [] call = "Rollback" ->
            /\ IF Inside THEN ok /\ Abort
               ELSE IF phase = "done" /\ committed THEN ~ok /\ Same   \* a committed transaction cannot be rolled back
               ELSE Same                                              \* never begun / already rolled back: either answer, no effect
            /\ UNCHANGED opened
       [] call = "P1" ->
            /\ IF phase = "p1" THEN TRUE ELSE ok = (phase = "begun")       \* a second phase 1: left open
            /\ IF phase = "begun" THEN phase' = "p1" /\ UNCHANGED <<committed, pendK2, pendN, hasK2, hasN>>
               ELSE IF phase = "p1" /\ ~ok THEN (Abort \/ Same) ELSE Same
            /\ UNCHANGED opened
       [] call = "P2" ->
            /\ IF phase = "p1" THEN ok /\ Install
               ELSE IF phase = "begun" THEN ~ok /\ Same               \* phase 2 before phase 1: refused
               ELSE Same /\ (phase = "new" => ~ok)
            /\ UNCHANGED opened
       [] call = "Close" -> Same /\ UNCHANGED opened

\* what a fresh transaction observes afterwards: key 2 of "s", existence of store "n"; pending things of a
\* transaction that has not ended are not persistent yet, except that a store is registered as soon as it is created
\* by an unfinished transaction (allowed either way while the creator is inside)
Final(k2, n) ==
  /\ k2 = hasK2
  /\ n = hasN \/ (Inside /\ pendN)
  /\ UNCHANGED vars

Next == \E c \in Calls, ok \in BOOLEAN : Do(c, ok)
Spec == Init /\ [][Next]_vars

\* properties of the model itself
ReadOnlyNeverWrites == (mode # "w") => (~hasK2 /\ ~hasN)
OnlyCommitInstalls == [][(hasK2' # hasK2 \/ hasN' # hasN) => (committed' /\ ~committed)]_vars
CommittedIsFinal == [][committed => (committed' /\ hasK2' = hasK2 /\ hasN' = hasN)]_vars

EmitState == PrintT(<<"ST", ToJson([mode |-> mode, path |-> path, phase |-> phase])>>)
=============================================================================
