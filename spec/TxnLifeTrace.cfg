SPECIFICATION TraceSpec
INVARIANTS ReadOnlyNeverWrites
CONSTRAINT HighWater
POSTCONDITION TraceAccepted
CHECK_DEADLOCK FALSE
