----------------------------- MODULE TxnLifeTrace -----------------------------
EXTENDS TxnLife
VARIABLE l
Trace == ndJsonDeserialize("trace.ndjson")
tvars == <<vars, l>>
IsEv(e) == l <= Len(Trace) /\ Trace[l].ev = e /\ l' = l + 1
E == Trace[l]
TraceInit == l = 1 /\ TLCSet(1, 1) /\ Init
TraceReset == /\ IsEv("Reset")
              /\ mode' \in {"w", "r", "n"} /\ phase' = "new" /\ committed' = FALSE /\ opened' = FALSE
              /\ pendK2' = FALSE /\ pendN' = FALSE /\ hasK2' = FALSE /\ hasN' = FALSE /\ path' = <<>>
TraceMode == IsEv("Mode") /\ mode = E.mode /\ UNCHANGED vars
TraceCall == IsEv("Call") /\ Do(E.call, E.ok)
TraceFinal == IsEv("Final") /\ Final(E.k2, E.n)
TraceNext == TraceReset \/ TraceMode \/ TraceCall \/ TraceFinal
TraceSpec == TraceInit /\ [][TraceNext]_tvars
HighWater == IF l > TLCGet(1) THEN TLCSet(1, l) ELSE TRUE
TraceAccepted == /\ PrintT(<<"HWM", TLCGet(1) - 1>>)
                 /\ TLCGet(1) - 1 = Len(Trace)
=============================================================================
