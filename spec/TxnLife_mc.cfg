SPECIFICATION Spec
VIEW view
INVARIANTS ReadOnlyNeverWrites EmitState
PROPERTIES OnlyCommitInstalls CommittedIsFinal
CHECK_DEADLOCK FALSE
