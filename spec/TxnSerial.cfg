SPECIFICATION Spec
INVARIANTS EmitSolved
CHECK_DEADLOCK FALSE
