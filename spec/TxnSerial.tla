------------------------------ MODULE TxnSerial ------------------------------
(* Serialisation search (C02): given recorded histories of concurrent transactions - for every transaction
   its operations with their results, and whether its Commit returned success - decide whether the successfully
   committed transactions (writers and readers alike) are explainable by running them one at a time in SOME order:
   every value a committed transaction read, and every presence answer one of its writes acted on, must be what
   the serial state gives, and the state after the last one must be the final observed contents.

   What counts as a read is what the property names: a value obtained (Get that found the key) and the
   presence answer of Add / AddIfNotExist / Update / Remove.  Absence answers of bare finds, counts and scans are
   not checked (the property promises no phantom protection).

   hist.ndjson: one history per line:
     [init |-> <<[s, k, v], ...>>, final |-> <<[s, k, v], ...>>, txns |-> <<[t, ops |-> <<[s, op, k, v, ok]..>>], ...>>]
   (only the committed transactions are listed).  Stores are unique-key stores (maps).  *)
EXTENDS Integers, Sequences, FiniteSets, TLC, Json

Hist == ndJsonDeserialize("hist.ndjson")
N == Len(Hist)

VARIABLES h, done, db
vars == <<h, done, db>>

Key(r) == <<r.s, r.k>>
MapOf(items) == [x \in {Key(items[i]) : i \in 1..Len(items)} |->
                    items[CHOOSE i \in 1..Len(items) : Key(items[i]) = x].v]
Txns(i) == 1..Len(Hist[i].txns)

Without(m, x) == [y \in DOMAIN m \ {x} |-> m[y]]
With(m, x, v) == [y \in DOMAIN m \cup {x} |-> IF y = x THEN v ELSE m[y]]

RECURSIVE Run(_, _, _)
\* replay ops[i..] on map m; result [ok, m]
Run(ops, i, m) ==
  IF i > Len(ops) THEN [ok |-> TRUE, m |-> m]
  ELSE LET o == ops[i]
           x == Key(o)
           has == x \in DOMAIN m
       IN CASE o.op = "Get" ->
                 IF o.ok /\ ~(has /\ m[x] = o.v) THEN [ok |-> FALSE, m |-> m] ELSE Run(ops, i + 1, m)
            [] o.op \in {"Add", "AddIfNotExist"} ->
                 IF o.ok # ~has THEN [ok |-> FALSE, m |-> m]
                 ELSE Run(ops, i + 1, IF o.ok THEN With(m, x, o.v) ELSE m)
            [] o.op = "Update" ->
                 IF o.ok # has THEN [ok |-> FALSE, m |-> m]
                 ELSE Run(ops, i + 1, IF o.ok THEN With(m, x, o.v) ELSE m)
            [] o.op = "Upsert" -> Run(ops, i + 1, With(m, x, o.v))
            [] o.op = "Remove" ->
                 IF o.ok # has THEN [ok |-> FALSE, m |-> m]
                 ELSE Run(ops, i + 1, IF o.ok THEN Without(m, x) ELSE m)
            [] OTHER -> Run(ops, i + 1, m)

Init == /\ h \in 1..N
        /\ done = {}
        /\ db = MapOf(Hist[h].init)

Serialize(t) ==
  /\ t \in Txns(h) \ done
  /\ LET r == Run(Hist[h].txns[t].ops, 1, db) IN
       /\ r.ok
       /\ db' = r.m
  /\ done' = done \cup {t}
  /\ h' = h

Next == \E t \in Txns(h) : Serialize(t)
Spec == Init /\ [][Next]_vars

\* required: number of transactions of the history that the property obliges to commit (C04: all of them; 0 otherwise)
Serialized == done = Txns(h) /\ db = MapOf(Hist[h].final) /\ Len(Hist[h].txns) >= Hist[h].required

\* emit the index of every history for which a complete serialisation exists
EmitSolved == Serialized => PrintT(<<"SOLVED", h>>)
=============================================================================
