------------------------------ MODULE TxnStore ------------------------------
(* API-level semantics of SOP transactions over B-tree stores.

   Stores are sets of items [k, v] (a map when the store is unique).  A transaction has a private
   overlay (adds / dels); its reads see the committed contents overlaid with its own changes.
   Commit has a linearization point (Lin) somewhere between CommitStart and CommitEnd: that is where
   the overlay of *every* store the transaction touched is installed at once.  A commit that returns an
   error, and a rollback, install nothing and drop the stores the transaction created.

   The module is written to be bound: every action is parameterised by what a trace event carries
   (TxnStoreTrace reuses them), and the small-constant configuration explores the same actions.  *)
EXTENDS Integers, Sequences, FiniteSets, TLC

CONSTANTS
  Strict      \* TRUE: a commit may fail only if a fault was armed for it or another transaction overlaps it

VARIABLES
  cat,        \* catalogue: store name -> [unique |-> BOOLEAN, by |-> creating txn or "" once committed,
              \*                            opts |-> digest of the store's configuration as created]
  db,         \* db[s]: committed items of store s (DOMAIN db = DOMAIN cat)
  tx          \* tx[t]: per-transaction record (see NewTx)

vars == <<cat, db, tx>>

Item(k, v) == [k |-> k, v |-> v]

NewTx(m) == [st |-> "active", mode |-> m, adds |-> {}, dels |-> {}, opened |-> {}, created |-> {},
             lin |-> FALSE, armed |-> FALSE, overlap |-> FALSE, outcome |-> ""]

Active(t)     == t \in DOMAIN tx /\ tx[t].st = "active"
Committing(t) == t \in DOMAIN tx /\ tx[t].st = "committing"
Live(t)       == Active(t) \/ Committing(t)

Others(t) == {u \in DOMAIN tx : u # t /\ Live(u)}

\* what transaction t sees of store s
View(t, s) == (db[s] \ {p[2] : p \in {q \in tx[t].dels : q[1] = s}})
              \cup {p[2] : p \in {q \in tx[t].adds : q[1] = s}}

Has(S, k)   == \E i \in S : i.k = k
With(S, k)  == {i \in S : i.k = k}

Init == cat = <<>> /\ db = <<>> /\ tx = <<>>

Without(f, s) == [x \in DOMAIN f \ {s} |-> f[x]]
WithoutAll(f, S) == [x \in DOMAIN f \ S |-> f[x]]

SetTx(t, r) == tx' = [x \in DOMAIN tx \cup {t} |-> IF x = t THEN r ELSE tx[x]]

\* mark every live transaction as having overlapped with another one
MarkOverlap(t, r) ==
  tx' = [x \in DOMAIN tx \cup {t} |->
            IF x = t THEN [r EXCEPT !.overlap = (Others(t) # {})]
            ELSE IF Live(x) THEN [tx[x] EXCEPT !.overlap = TRUE] ELSE tx[x]]

-----------------------------------------------------------------------------
Begin(t, m) ==
  /\ t \notin DOMAIN tx
  /\ m \in {"w", "r", "n"}
  /\ MarkOverlap(t, NewTx(m))
  /\ UNCHANGED <<cat, db>>

\* a fault is about to be injected into t's commit (harness event)
Arm(t) ==
  /\ Live(t)
  /\ SetTx(t, [tx[t] EXCEPT !.armed = TRUE])
  /\ UNCHANGED <<cat, db>>

\* NewBtree, first half: the store is registered in the repository as soon as the call starts working
\* (StoreRepository.Add runs inside NewBtree, long before the call returns; owned by t until t ends)
NewStoreBegin(t, s, unique) ==
  /\ Active(t)
  /\ IF s \notin DOMAIN cat
     THEN /\ cat' = cat @@ (s :> [unique |-> unique, by |-> t, opts |-> ""])
          /\ db'  = db @@ (s :> {})
          /\ SetTx(t, [tx[t] EXCEPT !.created = @ \cup {s}])
     ELSE UNCHANGED vars

\* NewBtree returns: created by this call, or opened if it existed with compatible options
\* opts: digest of the configuration the returned B-tree reports (name, description, slot length, flags, tables, root id)
NewStore(t, s, unique, ok, opts) ==
  /\ Active(t)
  /\ s \in DOMAIN cat
  /\ IF s \in tx[t].created
     THEN /\ ok
          /\ SetTx(t, [tx[t] EXCEPT !.opened = @ \cup {s}])
          /\ cat' = [cat EXCEPT ![s].opts = opts]        \* the configuration the store was created with
          /\ UNCHANGED db
     ELSE /\ ok = (cat[s].unique = unique)
          /\ ok => opts = cat[s].opts                   \* C13: reopening yields the original configuration
          /\ IF ok THEN SetTx(t, [tx[t] EXCEPT !.opened = @ \cup {s}]) /\ UNCHANGED <<cat, db>>
             ELSE \* incompatible options: the transaction is rolled back
                  /\ SetTx(t, [tx[t] EXCEPT !.st = "done", !.outcome = "rolledback"])
                  /\ cat' = WithoutAll(cat, tx[t].created)
                  /\ db'  = WithoutAll(db, tx[t].created)

OpenStore(t, s, ok, opts) ==
  /\ Active(t)
  /\ (ok /\ s \in DOMAIN cat) => (opts = cat[s].opts \/ cat[s].opts = "")     \* C13 ("" while the creating NewBtree has not returned yet)
  /\ \/ ok = (s \in DOMAIN cat)
     \* deviation of the code: a store whose creating transaction is still in flight may be listed but not yet openable
     \/ (~ok /\ s \in DOMAIN cat /\ cat[s].by # "" /\ cat[s].by # t)
  /\ IF ok THEN SetTx(t, [tx[t] EXCEPT !.opened = @ \cup {s}]) /\ UNCHANGED <<cat, db>>
     ELSE /\ SetTx(t, [tx[t] EXCEPT !.st = "done", !.outcome = "rolledback"])
          /\ cat' = WithoutAll(cat, tx[t].created)
          /\ db'  = WithoutAll(db, tx[t].created)

\* overlay manipulation
PutItem(r, s, i)  == [r EXCEPT !.adds = @ \cup {<<s, i>>}, !.dels = @ \ {<<s, i>>}]
DropItem(r, s, i) == [r EXCEPT !.adds = @ \ {<<s, i>>}, !.dels = @ \cup {<<s, i>>}]

CanOp(t, s) == Active(t) /\ s \in tx[t].opened /\ s \in DOMAIN cat

\* ---- write operations (writer transactions) ----
Add(t, s, k, v, ok) ==
  /\ CanOp(t, s) /\ tx[t].mode = "w"
  /\ ok = ~(cat[s].unique /\ Has(View(t, s), k))
  /\ SetTx(t, IF ok THEN PutItem(tx[t], s, Item(k, v)) ELSE tx[t])
  /\ UNCHANGED <<cat, db>>

AddIfNotExist(t, s, k, v, ok) ==
  /\ CanOp(t, s) /\ tx[t].mode = "w"
  /\ ok = ~Has(View(t, s), k)
  /\ SetTx(t, IF ok THEN PutItem(tx[t], s, Item(k, v)) ELSE tx[t])
  /\ UNCHANGED <<cat, db>>

\* Update replaces the value of one item with key k (the one the tree finds; any of them when duplicated)
Update(t, s, k, v, ok) ==
  /\ CanOp(t, s) /\ tx[t].mode = "w"
  /\ ok = Has(View(t, s), k)
  /\ IF ok THEN \E i \in With(View(t, s), k) : SetTx(t, PutItem(DropItem(tx[t], s, i), s, Item(k, v)))
     ELSE SetTx(t, tx[t])
  /\ UNCHANGED <<cat, db>>

Upsert(t, s, k, v, ok) ==
  /\ CanOp(t, s) /\ tx[t].mode = "w"
  /\ ok
  /\ IF Has(View(t, s), k)
     THEN \E i \in With(View(t, s), k) : SetTx(t, PutItem(DropItem(tx[t], s, i), s, Item(k, v)))
     ELSE SetTx(t, PutItem(tx[t], s, Item(k, v)))
  /\ UNCHANGED <<cat, db>>

Remove(t, s, k, ok) ==
  /\ CanOp(t, s) /\ tx[t].mode = "w"
  /\ ok = Has(View(t, s), k)
  /\ IF ok THEN \E i \in With(View(t, s), k) : SetTx(t, DropItem(tx[t], s, i))
     ELSE SetTx(t, tx[t])
  /\ UNCHANGED <<cat, db>>

\* ---- read operations (any mode) ----
Find(t, s, k, found) ==
  /\ CanOp(t, s)
  /\ found = Has(View(t, s), k)
  /\ UNCHANGED vars

\* Find + GetCurrentValue
Get(t, s, k, found, v) ==
  /\ CanOp(t, s)
  /\ found = Has(View(t, s), k)
  /\ found => Item(k, v) \in View(t, s)
  /\ UNCHANGED vars

Count(t, s, n) ==
  /\ CanOp(t, s)
  /\ n = Cardinality(View(t, s))
  /\ UNCHANGED vars

\* items: sequence of records [k, v] as an ordered scan returned them
IsSortedDump(items, S) ==
  /\ Len(items) = Cardinality(S)
  /\ {items[j] : j \in 1..Len(items)} = S
  /\ \A j \in 1..(Len(items) - 1) : items[j].k <= items[j + 1].k

Scan(t, s, items) ==
  /\ CanOp(t, s)
  /\ IsSortedDump(items, View(t, s))
  /\ UNCHANGED vars

\* an operation / open failed with an (injected) error: the B-tree wrapper rolls the transaction back
FailedCall(t) ==
  /\ Active(t) /\ tx[t].armed
  /\ cat' = WithoutAll(cat, tx[t].created)
  /\ db'  = WithoutAll(db, tx[t].created)
  /\ SetTx(t, [tx[t] EXCEPT !.st = "done", !.outcome = "rolledback"])

\* C38: the caller modifies, in place, a value or item it obtained from a read.  Nothing changes: not the
\* committed contents, not any transaction's view, not what anybody reads later.
Scribble(t) ==
  /\ Live(t)
  /\ UNCHANGED vars

\* ---- end of transaction ----
CommitStart(t) ==
  /\ Active(t)
  /\ SetTx(t, [tx[t] EXCEPT !.st = "committing"])
  /\ UNCHANGED <<cat, db>>

Installed(t) ==
  [s \in DOMAIN db |-> IF tx[t].mode = "w" THEN View(t, s) ELSE db[s]]

\* the commit point: every store's overlay is installed at once
Lin(t) ==
  /\ Committing(t) /\ ~tx[t].lin
  /\ db' = Installed(t)
  /\ cat' = [s \in DOMAIN cat |-> IF cat[s].by = t THEN [cat[s] EXCEPT !.by = ""] ELSE cat[s]]
  /\ SetTx(t, [tx[t] EXCEPT !.lin = TRUE])

MayFail(t) == ~Strict \/ tx[t].armed \/ tx[t].overlap

CommitEnd(t, ok) ==
  /\ Committing(t)
  /\ IF ok
     THEN /\ db' = IF tx[t].lin THEN db ELSE Installed(t)
          /\ cat' = [s \in DOMAIN cat |-> IF cat[s].by = t THEN [cat[s] EXCEPT !.by = ""] ELSE cat[s]]
          /\ SetTx(t, [tx[t] EXCEPT !.st = "done", !.lin = TRUE, !.outcome = "committed"])
     ELSE /\ ~tx[t].lin            \* an error return means nothing was installed
          /\ MayFail(t)
          /\ cat' = WithoutAll(cat, tx[t].created)
          /\ db'  = WithoutAll(db, tx[t].created)
          /\ SetTx(t, [tx[t] EXCEPT !.st = "done", !.outcome = "failed"])

Rollback(t) ==
  /\ Active(t)
  /\ cat' = WithoutAll(cat, tx[t].created)
  /\ db'  = WithoutAll(db, tx[t].created)
  /\ SetTx(t, [tx[t] EXCEPT !.st = "done", !.outcome = "rolledback"])

\* The process running t died inside Commit.  After restart and recovery the outcome is all or nothing:
\* either the commit point had been reached (everything installed) or nothing of t remains.
Crash(t) ==
  /\ Live(t)
  /\ \/ /\ Committing(t)
        /\ db' = IF tx[t].lin THEN db ELSE Installed(t)
        /\ cat' = [s \in DOMAIN cat |-> IF cat[s].by = t THEN [cat[s] EXCEPT !.by = ""] ELSE cat[s]]
        /\ SetTx(t, [tx[t] EXCEPT !.st = "done", !.lin = TRUE, !.outcome = "committed"])
     \/ /\ ~tx[t].lin
        /\ cat' = WithoutAll(cat, tx[t].created)
        /\ db'  = WithoutAll(db, tx[t].created)
        /\ SetTx(t, [tx[t] EXCEPT !.st = "done", !.outcome = "failed"])

\* number of transaction / priority log files left on disk: none once every transaction has ended and the
\* documented ages have passed with later transactions running (C09)
Logs(n) ==
  /\ (\A t \in DOMAIN tx : ~Live(t)) => n = 0
  /\ UNCHANGED vars

\* C11: audit from a fresh process once everything has ended: blob files no reachable node or item refers to,
\* registry slots of unreachable nodes, transaction / priority log files - none may exist
Audit(orphanBlobs, orphanHandles, logs) ==
  /\ (\A t \in DOMAIN tx : ~Live(t)) => (orphanBlobs = 0 /\ orphanHandles = 0 /\ logs = 0)
  /\ UNCHANGED vars

\* infs.RemoveBtree: non transactional, complete
RemoveStore(s) ==
  /\ \A t \in DOMAIN tx : Live(t) => s \notin tx[t].opened
  /\ cat' = Without(cat, s) /\ db' = Without(db, s)      \* removing a store that does not exist is a no-op
  /\ UNCHANGED tx

\* Observation by a fresh transaction / fresh process: exactly the committed state
Observe(s, exists, items, count, opts) ==
  /\ exists = (s \in DOMAIN cat)
  /\ exists => /\ IsSortedDump(items, db[s])
               /\ count = Cardinality(db[s])
               /\ (opts = cat[s].opts \/ cat[s].opts = "")   \* C13: only count and timestamp ever change
  /\ UNCHANGED vars

\* Observation while the creating transaction is still in flight may or may not list the store (not a content claim)
ObserveMaybe(s, exists, items, count) ==
  /\ s \in DOMAIN cat /\ cat[s].by # "" /\ ~exists
  /\ UNCHANGED vars

-----------------------------------------------------------------------------
(* Properties *)

\* C05: a unique store is a map
NoDupKeys == \A s \in DOMAIN cat : cat[s].unique =>
                \A i, j \in db[s] : i.k = j.k => i = j

\* C14: transactions that are not writers never change stored data (action property)
ReadOnlyNeverWrites ==
  [][\A t \in DOMAIN tx : (tx[t].mode # "w" /\ tx'[t].st # tx[t].st) =>
        \A s \in DOMAIN db \cap DOMAIN db' : db'[s] = db[s]]_vars

\* C01: committed contents change only at a commit point of a writer
ChangesOnlyAtCommit ==
  [][(\E s \in DOMAIN db \cap DOMAIN db' : db'[s] # db[s]) =>
        \E t \in DOMAIN tx : tx[t].st = "committing" /\ ~tx[t].lin /\ tx'[t].lin]_vars

=============================================================================
