SPECIFICATION MCSpec
CONSTANTS
  Strict = TRUE
  Txns = {"t1", "t2"}
  Stores = {"s1"}
  Keys = {1, 2}
  Vals = {"a"}
  MaxOps = 2
INVARIANTS NoResidue DomainsAgree FailedInstalledNothing CommittedInstalled
PROPERTIES ReadOnlyNeverWrites ChangesOnlyAtCommit
CHECK_DEADLOCK FALSE
