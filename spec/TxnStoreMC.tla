----------------------------- MODULE TxnStoreMC -----------------------------
(* Small-constant exploration of TxnStore: every interleaving of a few transactions over
   a few stores/keys with all operations, commits that may fail, rollbacks. *)
EXTENDS TxnStore

CONSTANTS Txns, Stores, Keys, Vals, MaxOps

VARIABLE nops

mcvars == <<vars, nops>>

MCInit == Init /\ nops = 0

Step(A) == A /\ nops' = nops
OpStep(A) == nops < MaxOps /\ A /\ nops' = nops + 1

MCNext ==
  \/ \E t \in Txns, m \in {"w", "r"} : Step(Begin(t, m))
  \/ \E t \in Txns : Step(Arm(t))
  \/ \E t \in Txns, s \in Stores, u \in BOOLEAN : Step(NewStoreBegin(t, s, u))
  \/ \E t \in Txns, s \in Stores, u \in BOOLEAN, ok \in BOOLEAN : Step(NewStore(t, s, u, ok, ""))
  \/ \E t \in Txns, s \in Stores, ok \in BOOLEAN : Step(OpenStore(t, s, ok, ""))
  \/ \E t \in Txns, s \in Stores, k \in Keys, v \in Vals, ok \in BOOLEAN :
        \/ OpStep(Add(t, s, k, v, ok)) \/ OpStep(AddIfNotExist(t, s, k, v, ok))
        \/ OpStep(Update(t, s, k, v, ok)) \/ OpStep(Upsert(t, s, k, v, ok))
        \/ OpStep(Remove(t, s, k, ok))
  \/ \E t \in Txns : Step(FailedCall(t)) \/ Step(Crash(t))
  \/ \E t \in Txns : Step(CommitStart(t)) \/ Step(Lin(t)) \/ Step(Rollback(t))
  \/ \E t \in Txns, ok \in BOOLEAN : Step(CommitEnd(t, ok))
  \/ \E s \in Stores : Step(RemoveStore(s))

MCSpec == MCInit /\ [][MCNext]_mcvars

\* committed state only ever holds stores of finished or committing creators; finished failed txns leave nothing
NoResidue ==
  \A s \in DOMAIN cat : cat[s].by # "" => (cat[s].by \in DOMAIN tx /\ Live(cat[s].by))

DomainsAgree == DOMAIN cat = DOMAIN db

\* a transaction whose commit returned an error or that rolled back installed nothing (history-free formulation:
\* its lin flag is false at the end)
FailedInstalledNothing ==
  \A t \in DOMAIN tx : tx[t].outcome \in {"failed", "rolledback"} => ~tx[t].lin
CommittedInstalled ==
  \A t \in DOMAIN tx : tx[t].outcome = "committed" => tx[t].lin
=============================================================================
