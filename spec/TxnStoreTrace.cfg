SPECIFICATION TraceSpec
CONSTANTS Strict = TRUE
INVARIANTS NoDupKeys
CONSTRAINT HighWater
POSTCONDITION TraceAccepted
CHECK_DEADLOCK FALSE
