---------------------------- MODULE TxnStoreTrace ----------------------------
(* Trace validation of API-level histories recorded from real SOP transactions
   (filesystem backend) against TxnStore.  Used for sequential histories (one
   live writer at a time, any number of paused/observing readers) with faults.  *)
EXTENDS TxnStore, Json

VARIABLE l

Trace == ndJsonDeserialize("trace.ndjson")

tvars == <<vars, l>>

IsEv(e) == l <= Len(Trace) /\ Trace[l].ev = e /\ l' = l + 1
E == Trace[l]

TraceInit == l = 1 /\ TLCSet(1, 1) /\ Init

TraceReset == IsEv("Reset") /\ cat' = <<>> /\ db' = <<>> /\ tx' = <<>>

TraceBegin      == IsEv("Begin") /\ Begin(E.t, E.mode)
TraceArm        == IsEv("Arm") /\ Arm(E.t)
TraceNewStoreBegin == IsEv("NewStoreBegin") /\ NewStoreBegin(E.t, E.s, E.unique)
TraceNewStore   == IsEv("NewStore") /\ NewStore(E.t, E.s, E.unique, E.ok, E.opts)
TraceOpenStore  == IsEv("OpenStore") /\ OpenStore(E.t, E.s, E.ok, E.opts)
TraceOp ==
  /\ IsEv("Op")
  /\ CASE E.op = "Add"           -> Add(E.t, E.s, E.k, E.v, E.ok)
       [] E.op = "AddIfNotExist" -> AddIfNotExist(E.t, E.s, E.k, E.v, E.ok)
       [] E.op = "Update"        -> Update(E.t, E.s, E.k, E.v, E.ok)
       [] E.op = "Upsert"        -> Upsert(E.t, E.s, E.k, E.v, E.ok)
       [] E.op = "Remove"        -> Remove(E.t, E.s, E.k, E.ok)
       [] E.op = "Find"          -> Find(E.t, E.s, E.k, E.ok)
       [] E.op = "Get"           -> Get(E.t, E.s, E.k, E.ok, E.v)
       [] E.op = "Count"         -> Count(E.t, E.s, E.n)
       [] E.op = "Scan"          -> Scan(E.t, E.s, E.items)
       [] OTHER                  -> FALSE
TraceFailedCall  == IsEv("OpError") /\ FailedCall(E.t)
TraceCommitStart == IsEv("CommitStart") /\ CommitStart(E.t)
\* C15: Commit returns within min(caller's deadline, maxTime) plus a small bounded overhead (one retry sleep of at most
\* 80 ms, one backend call, scheduling): 1.5 s is allowed here; budget = 0 means the run does not assert it
Overhead == 1500
TraceCommitEnd   == IsEv("CommitEnd") /\ CommitEnd(E.t, E.ok) /\ (E.budget = 0 \/ E.ms <= E.budget + Overhead)
TraceRollback    == IsEv("Rollback") /\ Rollback(E.t)
TraceScribble    == IsEv("Scribble") /\ Scribble(E.t)
TraceCrash       == IsEv("Crash") /\ Crash(E.t)
TraceAudit       == IsEv("Audit") /\ Audit(E.n, E.count, E.k)
TraceLogs        == IsEv("Logs") /\ Logs(E.n)
TraceRemoveStore == IsEv("RemoveStore") /\ RemoveStore(E.s)
TraceObserve     == IsEv("Observe") /\ (Observe(E.s, E.exists, E.items, E.count, E.opts)
                                        \/ ObserveMaybe(E.s, E.exists, E.items, E.count))
\* the commit point is not observable directly: a silent step between CommitStart and CommitEnd
TraceLin         == \E t \in DOMAIN tx : Lin(t) /\ UNCHANGED l

TraceNext == \/ TraceReset \/ TraceBegin \/ TraceArm \/ TraceNewStore \/ TraceOpenStore \/ TraceOp
             \/ TraceCommitStart \/ TraceCommitEnd \/ TraceRollback \/ TraceRemoveStore \/ TraceObserve
             \/ TraceLin \/ TraceFailedCall \/ TraceNewStoreBegin \/ TraceCrash \/ TraceLogs \/ TraceScribble \/ TraceAudit

TraceSpec == TraceInit /\ [][TraceNext]_tvars

HighWater == IF l > TLCGet(1) THEN TLCSet(1, l) ELSE TRUE
TraceAccepted == /\ PrintT(<<"HWM", TLCGet(1) - 1>>)
                 /\ TLCGet(1) - 1 = Len(Trace)
=============================================================================
