SPECIFICATION TraceSpec
CONSTANTS Strict = FALSE
INVARIANTS NoDupKeys
CONSTRAINT HighWater
POSTCONDITION TraceAccepted
CHECK_DEADLOCK FALSE
