----------------------------- MODULE VectorStore -----------------------------
(* One domain of the ai/vector store (/repo/ai/vector/store.go, store.optimize.go, store.consolidate.go),
   used by one client at a time.  One action per public call; the state is the content of the B-trees
   the calls read and write, abstracted to what decides the results of Get and Query:

     content[id]   the Content B-tree: ContentKey{ItemID, Deleted, CentroidID, Distance and the Next fields} -> payload
                      st   "none" no record | "live" | "dead" (Deleted = true, a tombstone until Optimize reaps it)
                      p    payload tag
                      ref  where the key says the vector is: AtTmp (CentroidID = 0: not indexed, vector in TempVectors)
                           or the vector of the Vectors entry it addresses by (CentroidID, Distance, ItemID)
     tmp           the TempVectors B-tree (ingestion buffer, "stage 0"): id -> vector, NilV = nil value = deleted
     idx           the Vectors B-tree of the active version: set of entries [id, v, tomb]  (tomb: VectorKey.IsDeleted)
     ver           Metadata.ActiveVersion (every completed Optimize installs version + 1)
     buf           Config.EnableIngestionBuffer as the client uses it:
                      0 never, 1 on every open, 2 on every open until the first Optimize ("build, seal, then serve")
     want[id]      what the client has been told: the latest acknowledged upsert of a live id (the oracle of C33)

   Centroids, distances, the Lookup tree and the k-means of Optimize are below this abstraction: Query probes the
   nprobe = 2 closest centroids only, so which indexed entries a query sees is left open (any subset); the
   three UsageModes differ only in centroid bookkeeping and must be indistinguishable here.

   Vectors are indexes into VecTable, integer vectors of equal norm: cosine order = order of integer dot
   products, cosine(q, v) = Dot(q, v) / NormSq exactly.

   Three deviations of the code at the pinned commit from what C33 requires are named and switchable
   (TRUE / 100 = model what /repo does, FALSE / 0 = model the repaired behaviour):
     FConsolidateTombstones  Consolidate (first step of Optimize when the buffer is open) migrates every
                             TempVectors entry that has a Content record - also the deleted ones (nil vector,
                             Deleted = true) - through the upsert path, which writes Deleted = false: the deleted
                             item is live again with a nil vector; if the first entry is such a tombstone and no
                             centroid exists yet, the nil vector becomes centroid 1 and the distance computation
                             for the next real vector panics (index out of range).
     FBufferBlind            while the buffer is open Get and Query read TempVectors only: everything Consolidate
                             moved into the index is unreachable (Get: "item vector not found in TempVectors").
     ConsolidateBatch = 100  (0 = no limit) Consolidate migrates at most 100 entries and Optimize calls it once; phase 4
                             then drops the TempVectors tree with the rest in it: those items keep a live Content
                             record that addresses nothing (Get: "item has invalid centroid ID (0)").  *)
EXTENDS Integers, Sequences, FiniteSets, TLC, Json

CONSTANTS NI, NV, NP,               \* ids 1..NI, vectors 1..NV (prefix of VecTable), payload tags 1..NP
          BufModes,                 \* values of buf explored
          Ks,                       \* k values of Query explored by the exhaustive model
          MaxOps, MaxVer,           \* bounds of the exhaustive model: mutating calls per program, optimizations
          MaxBatch, BatchVecs,      \*   and the batches tried: length, vectors (payload tag 1)
          FConsolidateTombstones, FBufferBlind, ConsolidateBatch

VARIABLES content, tmp, idx, ver, buf, want,
          broken,   \* a call panicked: the client stops
          hist      \* the mutating calls so far (emitted for replay on the real store)

vars == <<content, tmp, idx, ver, buf, want, broken, hist>>

VecTable == << <<2, 1, 0>>, <<1, 2, 0>>, <<0, 1, 2>>, <<-1, 0, 2>>, <<2, 0, 1>>, <<0, -2, 1>> >>
NormSq == 5
Dot3(x, y) == x[1] * y[1] + x[2] * y[2] + x[3] * y[3]
ASSUME \A i \in 1..Len(VecTable) : Dot3(VecTable[i], VecTable[i]) = NormSq
ASSUME NV \in 1..Len(VecTable)

Ids  == 1..NI
Vecs == 1..NV
Pays == 1..NP
NilV  == 0          \* a nil vector (cosine() of anything with it is 0)
AtTmp == -1

Dot(q, v) == IF v = NilV THEN 0 ELSE Dot3(VecTable[q], VecTable[v])

NoContent == [st |-> "none", p |-> 0, ref |-> AtTmp]
NoWant    == [live |-> FALSE, v |-> 0, p |-> 0]
Empty     == [i \in {} |-> 0]

\* does the handle the client holds have a TempVectors tree?
Stage == IF buf = 1 \/ (buf = 2 /\ ver = 0) THEN "tmp" ELSE "idx"

Init == /\ content = [i \in Ids |-> NoContent] /\ tmp = Empty /\ idx = {} /\ ver = 0
        /\ buf \in BufModes /\ want = [i \in Ids |-> NoWant]
        /\ broken = FALSE /\ hist = <<>>

-----------------------------------------------------------------------------
(* upsertItem *)
R(c, t, x) == [content |-> c, tmp |-> t, idx |-> x]

\* indexed path (arch.TempVectors == nil): drop the entry the old key addresses (also a tombstone: a deleted id
\* that is upserted again), add the new entry, rewrite the key (Deleted = false).  A key with CentroidID = 0
\* addresses nothing that exists, so nothing is dropped then.
DirectUpsert(S, id, v, p) ==
  LET old == S.content[id]
      x1  == IF old.st # "none" /\ old.ref # AtTmp
             THEN {e \in S.idx : ~(e.id = id /\ e.v = old.ref)} ELSE S.idx
  IN  R([S.content EXCEPT ![id] = [st |-> "live", p |-> p, ref |-> v]], S.tmp,
        x1 \cup {[id |-> id, v |-> v, tomb |-> FALSE]})

\* buffered path: TempVectors.Upsert + Content.Upsert with a default key (CentroidID = 0, Deleted = false);
\* the index is not touched.
BufferedUpsert(S, id, v, p) ==
  R([S.content EXCEPT ![id] = [st |-> "live", p |-> p, ref |-> AtTmp]],
    [i \in DOMAIN S.tmp \cup {id} |-> IF i = id THEN v ELSE S.tmp[i]], S.idx)

Up1(S, it) == IF Stage = "tmp" THEN BufferedUpsert(S, it[1], it[2], it[3]) ELSE DirectUpsert(S, it[1], it[2], it[3])

RECURSIVE UpAll(_, _)
UpAll(S, items) == IF items = <<>> THEN S ELSE UpAll(Up1(S, Head(items)), Tail(items))

RECURSIVE WantAll(_, _)
WantAll(w, items) == IF items = <<>> THEN w
                     ELSE WantAll([w EXCEPT ![Head(items)[1]] = [live |-> TRUE, v |-> Head(items)[2], p |-> Head(items)[3]]],
                                  Tail(items))

Cur == R(content, tmp, idx)
Install(S) == content' = S.content /\ tmp' = S.tmp /\ idx' = S.idx

Log(rec) == hist' = Append(hist, rec)
Bounded  == ~broken /\ Len(hist) < MaxOps

IsItem(it) == it[1] \in Ids /\ it[2] \in Vecs /\ it[3] \in Pays

\* Upsert(ctx, Item{id, vector v, payload p})
Upsert(id, v, p, ok) ==
  /\ Bounded /\ ok = TRUE /\ IsItem(<<id, v, p>>)
  /\ Install(Up1(Cur, <<id, v, p>>))
  /\ want' = WantAll(want, << <<id, v, p>> >>)
  /\ Log([op |-> "Upsert", id |-> id, v |-> v, p |-> p, items |-> <<>>])
  /\ UNCHANGED <<ver, buf, broken>>

\* UpsertBatch(ctx, items): the items in order (a later item of the same id wins)
UpsertBatch(items, ok) ==
  /\ Bounded /\ ok = TRUE /\ Len(items) >= 1 /\ \A i \in 1..Len(items) : IsItem(items[i])
  /\ Install(UpAll(Cur, items))
  /\ want' = WantAll(want, items)
  /\ Log([op |-> "UpsertBatch", id |-> 0, v |-> 0, p |-> 0, items |-> items])
  /\ UNCHANGED <<ver, buf, broken>>

\* Delete(ctx, id): soft delete.  Content key gets Deleted = true whenever a record exists (also twice);
\* buffered: the TempVectors value becomes nil if there is one; indexed: the addressed entry becomes a tombstone.
Delete(id, ok) ==
  /\ Bounded /\ ok = TRUE /\ id \in Ids
  /\ IF content[id].st = "none" THEN UNCHANGED <<content, tmp, idx>>
     ELSE /\ content' = [content EXCEPT ![id].st = "dead"]
          /\ IF Stage = "tmp"
             THEN /\ tmp' = IF id \in DOMAIN tmp THEN [tmp EXCEPT ![id] = NilV] ELSE tmp
                  /\ idx' = idx
             ELSE /\ tmp' = tmp
                  /\ idx' = IF content[id].ref = AtTmp THEN idx
                            ELSE {IF e.id = id /\ e.v = content[id].ref THEN [e EXCEPT !.tomb = TRUE] ELSE e : e \in idx}
  /\ want' = [want EXCEPT ![id] = NoWant]
  /\ Log([op |-> "Delete", id |-> id, v |-> 0, p |-> 0, items |-> <<>>])
  /\ UNCHANGED <<ver, buf, broken>>

-----------------------------------------------------------------------------
(* Optimize = commit; Consolidate; lock; phases 1-3 (rebuild Vectors/Centroids of version + 1 from the old
   Vectors tree, reap tombstones); phase 4 (switch ActiveVersion, drop TempVectors and the old trees). *)

\* TempVectors entries Consolidate pushes through the indexed upsert path
Migratable == IF Stage # "tmp" THEN {}
              ELSE {i \in DOMAIN tmp : /\ content[i].st # "none"
                                       /\ (FConsolidateTombstones \/ (content[i].st = "live" /\ tmp[i] # NilV))}
\* Consolidate scans TempVectors in key order and stops when it has collected ConsolidateBatch items; Optimize calls
\* it once.  (Keys are compared as strings; the driver names ids so that this is the numeric order.)
Migrated == IF ConsolidateBatch = 0 THEN Migratable
            ELSE {i \in Migratable : Cardinality({j \in Migratable : j < i}) < ConsolidateBatch}

Consolidated ==
  LET m  == Migrated
      c1 == [i \in Ids |-> IF i \in m THEN [st |-> "live", p |-> content[i].p, ref |-> tmp[i]] ELSE content[i]]
      x1 == {e \in idx : ~(e.id \in m /\ content[e.id].ref # AtTmp /\ e.v = content[e.id].ref)}
              \cup {[id |-> i, v |-> tmp[i], tomb |-> FALSE] : i \in m}
  IN  IF Stage # "tmp" THEN Cur ELSE R(c1, Empty, x1)

\* phases 1-3: an old entry is carried over iff its Content record is live and addresses exactly this entry;
\* a scanned entry whose record is Deleted makes Optimize remove the record (garbage collection).
Rebuilt(S) ==
  R([i \in Ids |-> IF S.content[i].st = "dead" /\ (\E e \in S.idx : e.id = i) THEN NoContent ELSE S.content[i]],
    Empty,
    {[id |-> e.id, v |-> e.v, tomb |-> FALSE] :
        e \in {x \in S.idx : S.content[x.id].st = "live" /\ S.content[x.id].ref = x.v}})

\* Consolidate seeds centroid 1 with the value of the first TempVectors entry when no centroid exists; a nil value
\* there makes the distance computation of the next non-nil vector panic.  No centroid can exist at version 0 with
\* the buffer open; later it depends on what the rebuild left, which is not modelled: then either outcome.
FirstTmp == CHOOSE i \in DOMAIN tmp : \A j \in DOMAIN tmp : i <= j
PanicPossible == /\ FConsolidateTombstones /\ Stage = "tmp" /\ DOMAIN tmp # {}
                 /\ tmp[FirstTmp] = NilV
                 /\ \E i \in Migrated : tmp[i] # NilV
PanicCertain  == PanicPossible /\ ver = 0

Optimize(ok) ==
  /\ Bounded /\ ver < MaxVer
  /\ \/ /\ ok = TRUE /\ ~PanicCertain
        /\ Install(Rebuilt(Consolidated))
        /\ ver' = ver + 1
        /\ UNCHANGED broken
     \/ /\ ok = FALSE /\ PanicPossible          \* finding: Optimize panics; the client stops here
        /\ broken' = TRUE
        /\ UNCHANGED <<content, tmp, idx, ver>>
  /\ Log([op |-> "Optimize", id |-> 0, v |-> 0, p |-> 0, items |-> <<>>])
  /\ UNCHANGED <<buf, want>>

-----------------------------------------------------------------------------
(* reads *)
GErr == [ok |-> FALSE, v |-> 0, p |-> 0]
GOk(v, p) == [ok |-> TRUE, v |-> v, p |-> p]

IdxLookup(id) == IF content[id].ref # AtTmp /\ (\E e \in idx : e.id = id /\ e.v = content[id].ref)
                 THEN GOk(content[id].ref, content[id].p) ELSE GErr

GetRes(id) ==
  IF content[id].st # "live" THEN GErr
  ELSE IF Stage = "tmp"
       THEN IF id \in DOMAIN tmp THEN GOk(tmp[id], content[id].p)
            ELSE IF FBufferBlind THEN GErr ELSE IdxLookup(id)
       ELSE IdxLookup(id)

\* Get(ctx, id) returned (ok, vector v, payload p)
GetMatches(id, ok, v, p) == id \in Ids /\ GetRes(id) = [ok |-> ok, v |-> v, p |-> p]
Get(id, ok, v, p) == ~broken /\ (GetMatches(id, ok, v, p) = TRUE) /\ UNCHANGED vars

\* what a query may score: non-nil TempVectors values when the buffer is open (brute force),
\* otherwise the non-tombstone entries of the probed centroids (any of them)
Cands ==
  IF Stage = "tmp"
  THEN {[id |-> i, v |-> tmp[i]] : i \in {j \in DOMAIN tmp : tmp[j] # NilV}}
         \cup (IF FBufferBlind THEN {}
               ELSE {[id |-> e.id, v |-> e.v] : e \in {x \in idx : ~x.tomb /\ x.id \notin DOMAIN tmp}})
  ELSE {[id |-> e.id, v |-> e.v] : e \in {x \in idx : ~x.tomb}}

\* ... of which the hits are those whose Content record is not Deleted and whose payload passes the filter
\* (f = 0: no filter, f > 0: tag = f), taken in descending score order until there are k
EligibleOf(C, f) == {c \in C : content[c.id].st = "live" /\ (f = 0 \/ content[c.id].p = f)}
Eligible(f) == EligibleOf(Cands, f)

HitOf(q, c) == [id |-> c.id, sd |-> Dot(q, c.v), p |-> content[c.id].p]

\* hits (sequence of [id, sd, p]; sd = score * NormSq) is a possible result of Query(q, k, filter f) over the
\* candidates C: each hit is an eligible candidate with its score, no candidate is used twice, scores do not increase
QueryValidOver(C, q, k, f, hits) ==
  LET n == Len(hits)
      E == EligibleOf(C, f)
      H == {HitOf(q, c) : c \in E}
  IN  /\ n <= k
      /\ \A i \in 1..n : hits[i] \in H
      /\ IF \A i, j \in 1..n : i < j => hits[i] # hits[j] THEN TRUE
         ELSE \A i \in 1..n : Cardinality({j \in 1..n : hits[j] = hits[i]})
                                  <= Cardinality({c \in E : HitOf(q, c) = hits[i]})
      /\ \A i \in 1..(n - 1) : hits[i].sd >= hits[i + 1].sd
QueryValid(q, k, f, hits) == QueryValidOver(Cands, q, k, f, hits)

QueryMatchesOver(C, q, k, f, ok, hits) ==
  /\ ok = TRUE /\ q \in 1..Len(VecTable) /\ k >= 0 /\ f \in 0..NP
  /\ QueryValidOver(C, q, k, f, hits)
QueryMatches(q, k, f, ok, hits) == QueryMatchesOver(Cands, q, k, f, ok, hits)
\* (= TRUE: evaluated as a value; TLC would otherwise split an action on every disjunction inside the predicate)
Query(q, k, f, ok, hits) == ~broken /\ (QueryMatches(q, k, f, ok, hits) = TRUE) /\ UNCHANGED vars

-----------------------------------------------------------------------------
(* C33 *)
\* Get: latest vector and payload if live, an error if deleted or never stored
GetOK == \A id \in Ids : GetRes(id) = IF want[id].live THEN GOk(want[id].v, want[id].p) ELSE GErr

\* Query, as stated: at most k distinct live items that pass the filter, in descending cosine order
\* (the reported score and payload are those of the item's latest version)
HitsOK(q, k, f, hits) ==
  LET n == Len(hits) IN
  /\ n <= k
  /\ \A i \in 1..n : /\ hits[i].id \in Ids /\ want[hits[i].id].live
                     /\ (f = 0 \/ want[hits[i].id].p = f)
                     /\ hits[i].p = want[hits[i].id].p
                     /\ hits[i].sd = Dot(q, want[hits[i].id].v)
  /\ \A i, j \in 1..n : i # j => hits[i].id # hits[j].id
  /\ \A i \in 1..(n - 1) : Dot(q, want[hits[i].id].v) >= Dot(q, want[hits[i + 1].id].v)

Injective(s) == \A i, j \in DOMAIN s : i # j => s[i] # s[j]
Min(a, b) == IF a < b THEN a ELSE b
\* every result the model allows for a probe
Results(q, k, f) ==
  LET E == Eligible(f) IN
  {[i \in 1..Len(s) |-> HitOf(q, s[i])] :
      s \in {t \in UNION {[1..n -> E] : n \in 0..Min(k, Cardinality(E))} :
                Injective(t) /\ \A i \in 1..(Len(t) - 1) : Dot(q, t[i].v) >= Dot(q, t[i + 1].v)}}

QueryOK == \A q \in Vecs, k \in Ks, f \in 0..NP : \A hits \in Results(q, k, f) : HitsOK(q, k, f, hits)

\* the structural reason: whatever a query may score is the latest version of a live item, once
IndexOK == LET C == Cands IN
           /\ \A c \in C : content[c.id].st = "live" =>
                 /\ want[c.id].live /\ c.v = want[c.id].v /\ content[c.id].p = want[c.id].p
           /\ \A c, d \in C : (c.id = d.id /\ content[c.id].st = "live") => c = d
           /\ \A i \in Ids : (content[i].st = "live") <=> want[i].live

\* optimization never loses, duplicates or resurrects items: it changes nothing a client can see
Visible == [i \in Ids |-> GetRes(i)]
Scored  == {c \in Cands : content[c.id].st = "live"}
IsOptimizeStep == Len(hist') = Len(hist) + 1 /\ hist'[Len(hist')].op = "Optimize"
OptimizePreserves == [][IsOptimizeStep => (Visible' = Visible /\ Scored' = Scored /\ ~broken')]_vars

\* nothing but an upsert makes an id live
NoResurrection == [][\A i \in Ids : (Visible'[i].ok /\ ~Visible[i].ok) =>
                        hist'[Len(hist')].op \in {"Upsert", "UpsertBatch"}]_vars

TypeOK == /\ \A i \in Ids : content[i].st \in {"none", "live", "dead"} /\ content[i].ref \in {AtTmp, NilV} \cup Vecs
          /\ DOMAIN tmp \subseteq Ids /\ \A i \in DOMAIN tmp : tmp[i] \in {NilV} \cup Vecs
          /\ \A e \in idx : e.id \in Ids /\ e.v \in {NilV} \cup Vecs /\ e.tomb \in BOOLEAN
          /\ ver \in 0..MaxVer /\ buf \in {0, 1, 2}

-----------------------------------------------------------------------------
\* batches of the exhaustive model (a batch is a sequence of upserts; the same id may occur twice)
Batches == UNION {[1..n -> Ids \X BatchVecs \X {1}] : n \in 1..MaxBatch}

Next == \/ \E id \in Ids, v \in Vecs, p \in Pays : Upsert(id, v, p, TRUE)
        \/ \E items \in Batches : UpsertBatch(items, TRUE)
        \/ \E id \in Ids : Delete(id, TRUE)
        \/ \E ok \in BOOLEAN : Optimize(ok)
        \/ \E id \in Ids : LET r == GetRes(id) IN Get(id, r.ok, r.v, r.p)
        \/ \E k \in Ks, f \in 0..NP : \E hits \in Results(1, k, f) : Query(1, k, f, TRUE, hits)

Spec == Init /\ [][Next]_vars

\* the history is not part of the state: one behaviour (a program that reaches it) is emitted per distinct state
View == <<content, tmp, idx, ver, buf, want, broken>>

EmitDone == PrintT(<<"BEH", ToJson([buf |-> buf, ops |-> hist])>>)
\* for the configuration that models the pinned commit (deviations switched on): list the programs that reach a
\* state in which C33 is broken (they are replayed on the real store to confirm the deviation is real)
C33Witness == (GetOK /\ IndexOK /\ ~broken) \/ PrintT(<<"CEX", ToJson([buf |-> buf, ops |-> hist])>>)
ASSUME PrintT(<<"VECS", ToJson(VecTable)>>)
=============================================================================
