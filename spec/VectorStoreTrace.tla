-------------------------- MODULE VectorStoreTrace --------------------------
(* Trace validation for VectorStore: call logs of the real ai/vector store (driver harness/cmd/vectorstore) are
   consumed line by line.  Every line is one public call with its arguments and its result; it must be an
   enabled action of VectorStore with exactly that result.  The invariants of C33 (trace cfg) are evaluated
   after every line; a Query line is additionally held against the statement of C33 itself (HitsOK).
     Setup        buf (how the client uses EnableIngestionBuffer), usage (UsageMode; not interpreted: all modes
                  must behave alike)
     Upsert id v p ok | UpsertBatch items ok | Delete id ok | Optimize ok
     Get id -> ok v p          v = index of the returned vector in VecTable, 0 = nil or not a table vector
     Query q k f -> ok hits    hits = <<[id, sd, p]>>, sd = round(score * NormSq): the dot product the score claims
     Observe gets queries      a run of Get/Query lines packed into one *)
EXTENDS VectorStore

VARIABLE l          \* next trace line to consume

Trace == ndJsonDeserialize("trace.ndjson")

tvars == <<vars, l>>

E == Trace[l]
IsEv(e) == l <= Len(Trace) /\ Trace[l].ev = e /\ l' = l + 1

Blank == /\ content = [i \in Ids |-> NoContent] /\ tmp = Empty /\ idx = {} /\ ver = 0 /\ buf = 0
         /\ want = [i \in Ids |-> NoWant] /\ broken = FALSE /\ hist = <<>>

TraceInit == l = 1 /\ TLCSet(1, 1) /\ Blank

TraceReset == /\ IsEv("Reset")
              /\ content' = [i \in Ids |-> NoContent] /\ tmp' = Empty /\ idx' = {} /\ ver' = 0 /\ buf' = 0
              /\ want' = [i \in Ids |-> NoWant] /\ broken' = FALSE /\ hist' = <<>>

TraceSetup == /\ IsEv("Setup") /\ hist = <<>> /\ E.buf \in {0, 1, 2}
              /\ buf' = E.buf
              /\ UNCHANGED <<content, tmp, idx, ver, want, broken, hist>>

Items(s) == [i \in 1..Len(s) |-> <<s[i][1], s[i][2], s[i][3]>>]
Hits(s)  == [i \in 1..Len(s) |-> [id |-> s[i].id, sd |-> s[i].sd, p |-> s[i].p]]

\* the history is not needed here: keep it short (only its last record is read, by NoResurrection/IsOptimizeStep)
TUpsert   == IsEv("Upsert") /\ Upsert(E.id, E.v, E.p, E.ok)
TBatch    == IsEv("UpsertBatch") /\ UpsertBatch(Items(E.items), E.ok)
TDelete   == IsEv("Delete") /\ Delete(E.id, E.ok)
TOptimize == IsEv("Optimize") /\ Optimize(E.ok)
TGet      == IsEv("Get") /\ Get(E.id, E.ok, E.v, E.p)
TQuery    == IsEv("Query") /\ Query(E.q, E.k, E.f, E.ok, Hits(E.hits))
                           /\ (~(FConsolidateTombstones \/ FBufferBlind) => HitsOK(E.q, E.k, E.f, Hits(E.hits)))

\* all reads the driver made after one mutating call, as one line (the check script packs them; a rejected
\* Observe line is unpacked into its Get/Query lines and validated again to name the call that disagrees)
TObserve  == /\ IsEv("Observe") /\ ~broken
             /\ \A i \in 1..Len(E.gets) : LET g == E.gets[i] IN GetMatches(g.id, g.ok, g.v, g.p)
             /\ \A i \in 1..Len(E.queries) :
                   LET x == E.queries[i] IN
                   /\ QueryMatches(x.q, x.k, x.f, x.ok, Hits(x.hits))
                   /\ (~(FConsolidateTombstones \/ FBufferBlind) => HitsOK(x.q, x.k, x.f, Hits(x.hits)))
             /\ UNCHANGED vars

TraceNext == TraceReset \/ TraceSetup \/ TUpsert \/ TBatch \/ TDelete \/ TOptimize \/ TGet \/ TQuery \/ TObserve

TraceSpec == TraceInit /\ [][TraceNext]_tvars

HighWater == IF l > TLCGet(1) THEN TLCSet(1, l) ELSE TRUE
TraceAccepted == /\ PrintT(<<"HWM", TLCGet(1) - 1>>)
                 /\ TLCGet(1) - 1 = Len(Trace)
=============================================================================
