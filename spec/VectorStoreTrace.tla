-------------------------- MODULE VectorStoreTrace --------------------------
(* Trace validation for VectorStore: call logs of the real ai/vector store (driver harness/cmd/vectorstore) are
   consumed line by line.  Every line is one public call with its arguments and its result; it must be an
   enabled action of VectorStore with exactly that result.  The invariants of C33 (trace cfg) are evaluated
   after every line; a Query line is additionally held against the statement of C33 itself (HitsOK).
     Setup        buf (how the client uses EnableIngestionBuffer), usage (UsageMode; not interpreted: all modes
                  must behave alike)
     Upsert id v p ok | UpsertBatch items ok | Delete id ok | Optimize ok
     Get id -> ok v p          v = index of the returned vector in VecTable, 0 = nil or not a table vector
     Query q k f -> ok hits    hits = << <<id, sd, p>> >>, sd = round(score * NormSq): the dot product the score claims
     Observe gets queries      a run of Get/Query lines packed into one
     Inspect ver content idx tmp   white box: the driver's dump of the trees (validated separately, never a verdict) *)
EXTENDS VectorStore

CONSTANT SkipRejected

VARIABLE l          \* next trace line to consume

Trace == ndJsonDeserialize("trace.ndjson")

tvars == <<vars, l>>

E == Trace[l]
IsEv(e) == l <= Len(Trace) /\ Trace[l].ev = e /\ l' = l + 1

Blank == /\ content = [i \in Ids |-> NoContent] /\ tmp = Empty /\ idx = {} /\ ver = 0 /\ buf = 0
         /\ want = [i \in Ids |-> NoWant] /\ broken = FALSE /\ hist = <<>>

TraceInit == l = 1 /\ TLCSet(1, 1) /\ Blank

TraceReset == /\ IsEv("Reset")
              /\ content' = [i \in Ids |-> NoContent] /\ tmp' = Empty /\ idx' = {} /\ ver' = 0 /\ buf' = 0
              /\ want' = [i \in Ids |-> NoWant] /\ broken' = FALSE /\ hist' = <<>>

TraceSetup == /\ IsEv("Setup") /\ hist = <<>> /\ E.buf \in {0, 1, 2}
              /\ buf' = E.buf
              /\ UNCHANGED <<content, tmp, idx, ver, want, broken, hist>>

\* compact encodings: item = <<id, v, p>>, hit = <<id, sd, p>>, packed get = <<id, ok, v, p>>,
\* packed query = <<q, k, f, ok, hits>>
Items(s) == [i \in 1..Len(s) |-> <<s[i][1], s[i][2], s[i][3]>>]
Hits(s)  == [i \in 1..Len(s) |-> [id |-> s[i][1], sd |-> s[i][2], p |-> s[i][3]]]

TUpsert   == IsEv("Upsert") /\ Upsert(E.id, E.v, E.p, E.ok)
TBatch    == IsEv("UpsertBatch") /\ UpsertBatch(Items(E.items), E.ok)
TDelete   == IsEv("Delete") /\ Delete(E.id, E.ok)
TOptimize == IsEv("Optimize") /\ Optimize(E.ok)
Strict == ~(FConsolidateTombstones \/ FBufferBlind \/ ConsolidateBatch # 0)

\* White box (never a verdict; keeps the concrete part of the model honest): the driver's dump of the B-trees
\* behind the store equals content / idx / tmp / ver.
\*   content = << <<id, 1 live | 2 deleted, payload tag, 0 key without centroid | 1 key addresses the index>> >>
\*   idx     = << <<id, vector, 0 | 1 tombstone>> >>     tmp = << <<id, vector (0 nil)>> >>
Rng(s) == {s[i] : i \in 1..Len(s)}
InspectOK ==
  /\ E.ver = ver
  /\ Rng(E.content) = {<<i, IF content[i].st = "live" THEN 1 ELSE 2, content[i].p, IF content[i].ref = AtTmp THEN 0 ELSE 1>> :
                         i \in {j \in Ids : content[j].st # "none"}}
  /\ Rng(E.idx) = {<<e.id, e.v, IF e.tomb THEN 1 ELSE 0>> : e \in idx}
  /\ Rng(E.tmp) = {<<i, tmp[i]>> : i \in DOMAIN tmp}

\* reads: Get, Query, or all reads the driver made after one mutating call packed into one Observe line (the check
\* script packs them; a rejected Observe line is validated again unpacked to name the call that disagrees)
ReadOK ==
  CASE E.ev = "Get"   -> GetMatches(E.id, E.ok, E.v, E.p)
    [] E.ev = "Query" -> LET h == Hits(E.hits) IN
                         QueryMatches(E.q, E.k, E.f, E.ok, h) /\ (Strict => HitsOK(E.q, E.k, E.f, h))
    [] E.ev = "Inspect" -> InspectOK
    [] OTHER          ->
         LET C == Cands IN
         /\ \A i \in 1..Len(E.gets) : LET g == E.gets[i] IN GetMatches(g[1], g[2], g[3], g[4])
         /\ \A i \in 1..Len(E.queries) :
               LET x == E.queries[i] h == Hits(x[5]) IN
               /\ QueryMatchesOver(C, x[1], x[2], x[3], x[4], h)
               /\ (Strict => HitsOK(x[1], x[2], x[3], h))

\* Bulk mode (SkipRejected): a line that is not a step of the model is reported (<<"REJ", line>>) and the rest of
\* that trace is skipped, so that one TLC run judges all traces of a file.  With SkipRejected = FALSE the run
\* stops at the first such line (HWM protocol of vlib.validate_traces).
NextReset == CHOOSE j \in (l + 1)..(Len(Trace) + 1) :
                /\ (j = Len(Trace) + 1 \/ Trace[j].ev = "Reset")
                /\ \A i \in (l + 1)..(j - 1) : Trace[i].ev # "Reset"
Reject == SkipRejected /\ PrintT(<<"REJ", l>>) /\ l' = NextReset

\* = Get / Query of VectorStore (stuttering steps guarded by GetMatches / QueryMatches), evaluated once per line
TRead == /\ l <= Len(Trace) /\ E.ev \in {"Get", "Query", "Observe", "Inspect"}
         /\ IF ~broken /\ (ReadOK = TRUE) THEN l' = l + 1 ELSE Reject
         /\ UNCHANGED vars

Mutating == TraceSetup \/ TUpsert \/ TBatch \/ TDelete \/ TOptimize
TSkip == /\ l <= Len(Trace) /\ E.ev \notin {"Reset", "Get", "Query", "Observe", "Inspect"}
         /\ ~ENABLED Mutating
         /\ Reject
         /\ UNCHANGED vars

TraceNext == TraceReset \/ Mutating \/ TRead \/ TSkip

TraceSpec == TraceInit /\ [][TraceNext]_tvars

HighWater == IF l > TLCGet(1) THEN TLCSet(1, l) ELSE TRUE
TraceAccepted == /\ PrintT(<<"HWM", TLCGet(1) - 1>>)
                 /\ TLCGet(1) - 1 = Len(Trace)
=============================================================================
