SPECIFICATION TraceSpec
CONSTANTS
  NI = 12
  NV = 6
  NP = 3
  BufModes = {0}
  Ks = {1}
  MaxOps = 1000000
  MaxVer = 1000000
  MaxBatch = 0
  BatchVecs = {}
  FConsolidateTombstones = TRUE
  SkipRejected = TRUE
  ConsolidateBatch = 100
  FBufferBlind = FALSE
CONSTRAINT HighWater
POSTCONDITION TraceAccepted
CHECK_DEADLOCK FALSE
