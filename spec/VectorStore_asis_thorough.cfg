SPECIFICATION Spec
CONSTANTS
  NI = 3
  NV = 3
  NP = 1
  BufModes = {1, 2}
  Ks = {1, 3}
  MaxOps = 99
  MaxVer = 2
  MaxBatch = 1
  BatchVecs = {1}
  FConsolidateTombstones = TRUE
  ConsolidateBatch = 100
  FBufferBlind = TRUE
VIEW View
INVARIANTS TypeOK EmitDone C33Witness
CHECK_DEADLOCK FALSE
