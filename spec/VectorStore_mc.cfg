SPECIFICATION Spec
CONSTANTS
  NI = 3
  NV = 3
  NP = 2
  BufModes = {0, 2}
  Ks = {1, 3}
  MaxOps = 99
  MaxVer = 2
  MaxBatch = 2
  BatchVecs = {1, 2}
  FConsolidateTombstones = FALSE
  ConsolidateBatch = 0
  FBufferBlind = FALSE
VIEW View
INVARIANTS TypeOK GetOK QueryOK IndexOK EmitDone
PROPERTIES OptimizePreserves NoResurrection
CHECK_DEADLOCK FALSE
