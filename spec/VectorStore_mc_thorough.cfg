SPECIFICATION Spec
CONSTANTS
  NI = 3
  NV = 4
  NP = 2
  BufModes = {0, 2}
  Ks = {0, 1, 2, 3}
  MaxOps = 99
  MaxVer = 3
  MaxBatch = 2
  BatchVecs = {1, 2, 3, 4}
  FConsolidateTombstones = FALSE
  ConsolidateBatch = 0
  FBufferBlind = FALSE
VIEW View
INVARIANTS TypeOK GetOK QueryOK IndexOK EmitDone
PROPERTIES OptimizePreserves NoResurrection
CHECK_DEADLOCK FALSE
