#!/usr/bin/env python3
"""(Re)build section 10 of DESIGN.md from asbuilt_draft.md + the seeded-change matrix + the per-property table."""
import glob, re, subprocess
d = open('/verif/DESIGN.md').read()
i = d.find('\n## 10. As built')
j = d.find('\n## Appendix A')
if i > 0:
    d = d[:i] + d[j:]
    j = d.find('\n## Appendix A')
body = open('/verif/asbuilt_draft.md').read().strip('\n')
matrix = subprocess.run(['python3', '/verif/tools_matrix.py'], stdout=subprocess.PIPE, text=True).stdout
rows = []
for f in sorted(glob.glob('/verif/checks/C[0-9][0-9].py')):
    src = open(f).read()
    m = re.search(r"META = dict\((.*?)\n\)", src, re.S)
    meta = eval("dict(" + m.group(1) + ")")
    cfgs = sorted(set(re.findall(r'"(\w+\.cfg)"', src)))
    modes = sorted(set(re.findall(r'run_driver\(c, binp, "(\w+)"', src)) | ({"conc"} if "_conc.run_conc" in src else set()) | ({"crash"} if "run_crash" in src else set()))
    rows.append("| %s | %s | %s | %s |" % (meta['property_id'], meta['engine'], ", ".join(cfgs) or "(cfgs chosen in the helper module)", ", ".join(modes) or "own driver"))
table = "| Id | Engine | TLC configurations named in the check | `txn` driver modes |\n|---|---|---|---|\n" + "\n".join(rows)
sec = "\n" + body + """

### 10.6 Seeded changes and the checks that detect them

Sub-agent mutants: each produced by a fresh sub-agent that saw only the property text and a scratch worktree, kept
only after I confirmed (tools_eval_mutant.py) that the change applies, the repository's package tests still pass, and
the demonstration passes without and fails with it; then every listed check was run with `VERIF_REPO=<worktree with the
patch>`.  "Detected by" = the check exited 1 with a VIOLATION that is not a known finding.  Reverts of `fix:` commits
are the reverse diffs of two repairs with their own demonstrations.

""" + matrix + """
What the misses taught, and what was strengthened because of them:

* C07-mutant1 (count rollback keyed on the first store) needed a victim that *creates* one store and changes the count
  of an *existing* one: two directed transaction shapes were added to the fault driver (`directedCreateAndExisting`,
  `directedTwoExisting`), which also made C11-mutant1 (staged blobs of the second store left) detectable.
* C10-mutant1 (partial rollback deletes value blobs the retry re-uses) needed a conflict-and-retry on a store with
  values outside the node: C10 now also runs gate-scheduled *disjoint* writers with cold child-process traversals.
* C19-mutant1 (odd slot lengths) needed odd slot lengths: C19 draws from 2,3,4,5,7,8,9,24,64,500.
* C20-mutant1 (read-node MRU kept across refetch-and-merge) needed a writer that merges into a *restructured* tree
  and an oracle that looks at traversal order: the `split` workload and the key-order / count check in C04 (and the
  concurrent count check in C06, which now also detects C06-mutant1).
* C20-mutant2 (L1 consulted during commit) was *masked* by the over-broad signature of finding C20-K1
  (`commit-failed` of any kind): the signature now names the symptoms actually seen on the unchanged tree
  (`commit-failed-on-stale-view`), and `retry-limit` failures are reported.
* The revert of c636a645 was invisible to C01/C06/C17/C19 until (a) `Neighbour` programs (one transaction per seeded
  key working on the key and its neighbour) were added to the sequential generators and (b) `OrderedStoreTrace`
  gained the `TrkAgrees` clause: what the B-tree reports to its ItemActionTracker must be exactly the ids that left /
  entered / changed in the contents.  The revert of 73905dbc is caught by C20's random histories with probability
  about 0.6 per seed, so three directed standalone scripts (L2 clear, partial re-caching, multi-node commit) were added.
* C13-mutant2 (an in-place digit overwrite that keeps the old trailing digits when the count loses a decimal digit:
  100 -> 99 is stored as 990) was missed by C13 because its random programs use 8 keys and the count never reached 10:
  `genTide` (every third C13 program) now drives one adversarially named store through the counts 12, 9, 10, 0, 100+x,
  99, 100, 99, 9, one commit each, with a cold child-process observation after every commit; detected since.
* Session 4 round (C04, C12, C13 x2, C16 x2): C12-mutant1 (only the first of several stores created by a rolled-back
  transaction is removed), C13-mutant1 (a name/description that *is* a field name is patched as if it were the key),
  C16-mutant1 (rollback fan-out stops at the first participant whose Rollback fails) and C16-mutant2 (a Phase1 failure
  of a non-last participant is overwritten by the last one's success) were detected at once by the property's own
  check.  The C04 candidate (replayed Update writes the refetched item back) made two existing `common` tests fail
  (`Test_RefetchAndMerge_Update*_InNodeSegment_Succeeds`), so it is not a qualifying change and was not kept; C04's
  quick check did report it (`union-differs:own-write-not-visible:Update`).
* C04-mutant1 (the replay loop of refetch-and-merge stops after the first replayed Remove; `common` tests still pass) was
  missed by C04 because the disjoint workload never removed anything: writers now also remove their own seeded keys
  (same residue class as the keys they update, several removes per transaction); detected since (the union oracle
  reports the writer's other changes missing).  Unchanged tree re-run: exit 0.
* Still missed: C08-mutant1 and C10-mutant2 live entirely in the expired-log / priority-rollback recovery code, which
  no public path reaches (finding C09-K1): nothing the harness can drive executes the changed lines.
* Detected only by a *neighbouring* property's check (the listed property's own check does not see them because the
  symptom is not the one that property names): C03-mutant1/2 (state after a failed commit: C07/C37), C05-mutant2
  (B-tree level: C17), C08-mutant2 (handle protocol: C37), C14-mutant1 (participant protocol: C16), C15-mutant1/2
  (blocked retry: C07; lock take-over: C28).

### 10.7 Per property, as built

The deciding method, bounds and limits of each check are in MANIFEST.json (`technique`, `level_claimed.text`,
`level_note`, generated from the `META` block at the top of `checks/Cxx.py`).  Summary:

""" + table + "\n"
d = d[:j] + "\n" + sec + d[j:]
open('/verif/DESIGN.md', 'w').write(d)
print("DESIGN.md: section 10 rebuilt,", len(sec.splitlines()), "lines")
