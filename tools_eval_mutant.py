#!/usr/bin/env python3
"""Confirm a sub-agent's mutant and run checks against it.
usage: tools_eval_mutant.py <mutant dir> <property id> <check ids comma separated> [--no-tests]
Creates seeded/<prop>-<name>/ with patch.diff, the demonstration, meta.json."""
import json, os, re, shutil, subprocess, sys, time
mdir, prop, checks = sys.argv[1], sys.argv[2], sys.argv[3].split(",")
notests = "--no-tests" in sys.argv
checks_only = "--checks-only" in sys.argv   # the demo and the package tests were confirmed by an earlier evaluation (seeded/<name>/meta.json)
name = os.path.basename(os.path.dirname(mdir.rstrip("/"))).replace(".out", "") + "-" + os.path.basename(mdir.rstrip("/"))
readme = open(os.path.join(mdir, "README.txt")).read()
demo = next((f for f in os.listdir(mdir) if f.startswith("demo") and (f.endswith(".go") or os.path.isdir(os.path.join(mdir, f)))), None)
m = re.search(r"place(?:d)? at\s+`?([\w./\-]+\.go)`?", readme)
dest = m.group(1) if m else None
m = re.search(r"((?:cd [\w./\-]+ && )?(?:\w+=\S* )*go test [^\n]*-run [^\n]*)", readme)
cmd = m.group(1).strip().rstrip("`") if m else None
print("demo", demo, "dest", dest, "cmd", cmd, flush=True)
if not (demo and dest and cmd):
    print("CANNOT PARSE README"); sys.exit(3)
if dest.startswith("infs/") and not cmd.startswith("cd "):
    cmd = "cd infs && " + cmd
if "GOFLAGS=" not in cmd:
    cmd = cmd.replace("go test", "GOFLAGS= GOPROXY=off go test", 1)
wt = "/var/tmp/mev-%d" % os.getpid()
def sh(c, cwd=None, timeout=1800):
    p = subprocess.run(c, shell=True, cwd=cwd, stdout=subprocess.PIPE, stderr=subprocess.STDOUT, text=True, timeout=timeout)
    return p.returncode, p.stdout
subprocess.run(["git", "-C", "/repo", "worktree", "add", "--detach", wt, "HEAD"], check=True, stdout=subprocess.DEVNULL, stderr=subprocess.DEVNULL)
meta = dict(property=prop, source=mdir, ran=[])
prev = os.path.join("/verif/seeded", name, "meta.json")
if checks_only and os.path.exists(prev):
    meta = json.load(open(prev))
try:
    if checks_only and meta.get("demo_confirmed"):
        rc, out = sh("git apply " + os.path.join(mdir, "patch.diff"), wt)
        if rc != 0:
            meta["error"] = "patch does not apply: " + out[-300:]
            raise SystemExit
        raise StopIteration
    shutil.copy(os.path.join(mdir, demo), os.path.join(wt, dest))
    rc0, out0 = sh(cmd, wt); meta["demo_without_change_rc"] = rc0; meta["ran"].append(cmd)
    rc, out = sh("git apply " + os.path.join(mdir, "patch.diff"), wt)
    if rc != 0:
        meta["error"] = "patch does not apply: " + out[-300:]
        raise SystemExit
    rc1, out1 = sh(cmd, wt); meta["demo_with_change_rc"] = rc1
    meta["demo_confirmed"] = (rc0 == 0 and rc1 != 0)
    os.remove(os.path.join(wt, dest))
    touched = sorted({(l.split()[-1][2:].rsplit("/", 1)[0] if "/" in l.split()[-1][2:] else ".") for l in open(os.path.join(mdir, "patch.diff")) if l.startswith("+++ b/")})
    meta["touched"] = touched
    if not notests:
        res = {}
        for pkg in touched:
            top = pkg.split("/")[0]
            if top in ("infs", "jsondb", "search", "ai", "incfs"):
                c = "cd %s && GOFLAGS= GOPROXY=off go test -count=1 -vet=off ./%s/" % (top, "/".join(pkg.split("/")[1:]) or ".")
            else:
                c = "GOFLAGS= GOPROXY=off go test -count=1 ./%s/" % pkg
            r, o = sh(c, wt, 2400)
            fails = sorted(set(re.findall(r"^--- FAIL: (\S+)", o, re.M)))
            res[pkg] = dict(rc=r, fails=fails)
            meta["ran"].append(c)
        meta["package_tests_with_change"] = res
except StopIteration:
    pass
try:
    det = dict(meta.get("checks", {}))
    for ck in checks:
        t = time.time()
        p = subprocess.run(["./check", ck], cwd="/verif", env=dict(os.environ, VERIF_REPO=wt, VERIF_TIER="quick"), stdout=subprocess.PIPE, stderr=subprocess.STDOUT, text=True)
        sigs = sorted(set(re.findall(r"signature: (.*)", p.stdout)))
        det[ck] = dict(rc=p.returncode, signatures=sigs[:6], wall_s=round(time.time() - t))
        meta["ran"].append("VERIF_REPO=<worktree with patch> ./check %s" % ck)
        print(ck, det[ck], flush=True)
    meta["checks"] = det
    meta["detected_by"] = [k for k, v in det.items() if v["rc"] == 1]
    meta["head_at_evaluation"] = subprocess.run(["git", "-C", "/repo", "rev-parse", "--short", "HEAD"], stdout=subprocess.PIPE, text=True).stdout.strip()
finally:
    subprocess.run(["git", "-C", "/repo", "worktree", "remove", "--force", wt], stdout=subprocess.DEVNULL, stderr=subprocess.DEVNULL)
m2 = re.search(r"(?i)needs?[^\n]*\n([^\n]+)", readme)
meta["needs"] = " ".join(readme.split("\n")[0:6])[:600]
out = os.path.join("/verif/seeded", name)
os.makedirs(out, exist_ok=True)
shutil.copy(os.path.join(mdir, "patch.diff"), out)
shutil.copy(os.path.join(mdir, demo), out)
shutil.copy(os.path.join(mdir, "README.txt"), os.path.join(out, "README.txt"))
json.dump(meta, open(os.path.join(out, "meta.json"), "w"), indent=1)
print(json.dumps({k: meta.get(k) for k in ("demo_confirmed", "detected_by", "package_tests_with_change")}))
