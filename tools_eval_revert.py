#!/usr/bin/env python3
"""Evaluate seeded/revert-<sha>: the reverse diff of a fix: commit.  usage: tools_eval_revert.py <sha> <property> <checks,comma> <demo dest> <demo cmd>"""
import json, os, re, shutil, subprocess, sys, time
sha, prop, checks, dest, cmd = sys.argv[1], sys.argv[2], sys.argv[3].split(","), sys.argv[4], sys.argv[5]
d = "/verif/seeded/revert-" + sha
wt = "/var/tmp/mev-rv-%d" % os.getpid()
def sh(c, cwd=None):
    p = subprocess.run(c, shell=True, cwd=cwd, stdout=subprocess.PIPE, stderr=subprocess.STDOUT, text=True)
    return p.returncode, p.stdout
subprocess.run(["git", "-C", "/repo", "worktree", "add", "--detach", wt, "HEAD"], check=True, stdout=subprocess.DEVNULL, stderr=subprocess.DEVNULL)
meta = dict(property=prop, what=open(d + "/demo_test.go").read().split("\n")[2][3:], origin="reverse diff of fix commit " + sha, ran=[])
try:
    shutil.copy(d + "/demo_test.go", os.path.join(wt, dest))
    rc0, _ = sh(cmd, wt); meta["demo_without_change_rc"] = rc0
    rc, out = sh("git apply " + d + "/patch.diff", wt)
    assert rc == 0, out
    rc1, out1 = sh(cmd, wt); meta["demo_with_change_rc"] = rc1
    meta["demo_confirmed"] = rc0 == 0 and rc1 != 0
    meta["ran"].append(cmd)
    os.remove(os.path.join(wt, dest))
    meta["needs"] = "see the header of demo_test.go; the repository's tests pass with the change (it is the tree before the fix commit)"
    det = {}
    for ck in checks:
        t = time.time()
        p = subprocess.run(["./check", ck], cwd="/verif", env=dict(os.environ, VERIF_REPO=wt, VERIF_TIER="quick"), stdout=subprocess.PIPE, stderr=subprocess.STDOUT, text=True)
        det[ck] = dict(rc=p.returncode, signatures=sorted(set(re.findall(r"signature: (.*)", p.stdout)))[:6], wall_s=round(time.time() - t))
        meta["ran"].append("VERIF_REPO=<worktree with patch> ./check %s" % ck)
        print(ck, det[ck], flush=True)
    meta["checks"] = det
    meta["detected_by"] = [k for k, v in det.items() if v["rc"] == 1]
finally:
    subprocess.run(["git", "-C", "/repo", "worktree", "remove", "--force", wt], stdout=subprocess.DEVNULL, stderr=subprocess.DEVNULL)
json.dump(meta, open(d + "/meta.json", "w"), indent=1)
print(json.dumps({k: meta.get(k) for k in ("demo_confirmed", "detected_by")}))
