#!/usr/bin/env python3
"""Markdown table of the seeded changes and the checks that detect them (from seeded/*/meta.json)."""
import glob, json, os
rows = []
for d in sorted(glob.glob("/verif/seeded/*/")):
    name = os.path.basename(d.rstrip("/"))
    try:
        m = json.load(open(d + "meta.json"))
    except Exception:
        continue
    det = m.get("detected_by")
    if isinstance(det, list):
        det_s = ", ".join(det) if det else "**none**"
        tried = ", ".join(sorted(m.get("checks", {}).keys()))
    else:
        det_s = (det or "").split(":")[0].replace("./check ", "") or "?"
        tried = det_s
    what = (m.get("what") or m.get("needs") or "")
    readme = d + "README.txt"
    if not m.get("what") and os.path.exists(readme):
        what = open(readme).readline().strip()
    origin = "sub-agent" if "-mutant" in name else ("revert of fix" if name.startswith("revert-") else "builder agent")
    rows.append((name, m.get("property", "?"), origin, what[:150].replace("|", "/"), tried, det_s))
import collections
print("| Seeded change | Property | Origin | What it changes | Checks run | Detected by |")
print("|---|---|---|---|---|---|")
for r in rows:
    if r[2] != "builder agent":
        print("| %s | %s | %s | %s | %s | %s |" % r)
print()
by = collections.Counter(r[1] for r in rows if r[2] == "builder agent")
print("Builder-agent mutants (each applied to a scratch worktree by the agent that built the check, each detected by that property's check; patch and meta under seeded/): "
      + ", ".join("%s x%d" % (k, v) for k, v in sorted(by.items())) + ".")
print()
sub = [r for r in rows if r[2] != "builder agent"]
print("%d sub-agent / revert changes, %d detected by at least one check; %d builder-agent changes." % (len(sub), sum(1 for r in sub if "none" not in r[5]), len(rows) - len(sub)))
