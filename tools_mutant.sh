#!/bin/sh
# usage: tools_mutant.sh <patch.diff> <check-id> [tier]  -- run a check against a scratch worktree of /repo with the patch applied
set -e
P=$(readlink -f "$1"); ID=$2; TIER=${3:-quick}
W=/var/tmp/mut-$$
git -C /repo worktree add --detach "$W" HEAD >/dev/null 2>&1
( cd "$W" && git apply "$P" ) || { git -C /repo worktree remove --force "$W"; echo "patch failed"; exit 3; }
set +e
VERIF_REPO="$W" VERIF_TIER=$TIER /verif/check "$ID"
RC=$?
git -C /repo worktree remove --force "$W"
echo "mutant rc=$RC"
exit $RC
