#!/usr/bin/env python3
"""Run many checks (quick by default) for several seeds in parallel; summarise rc / wall / known findings hit.
usage: tools_runall.py [--tier quick|thorough] [--seeds 1,2,3] [--par 4] [C01 C02 ...]"""
import concurrent.futures as cf, glob, json, os, re, subprocess, sys, time
args = sys.argv[1:]
def opt(name, d):
    if name in args:
        i = args.index(name); v = args[i + 1]; del args[i:i + 2]; return v
    return d
evdir = opt("--evidence-dir", "/verif/evidence")
if evdir != "/verif/evidence":
    os.makedirs(evdir, exist_ok=True); os.environ["VERIF_EVIDENCE_DIR"] = evdir
tier = opt("--tier", "quick"); seeds = [int(x) for x in opt("--seeds", "1").split(",")]; par = int(opt("--par", "4"))
checks = args or sorted(os.path.basename(p)[:-3] for p in glob.glob("/verif/checks/C[0-9][0-9].py"))
out = "/var/tmp/runall"; os.makedirs(out, exist_ok=True)
def one(ck, seed):
    t = time.time()
    p = subprocess.run(["./check", ck, "--tier", tier, "--seed", str(seed)], cwd="/verif", stdout=subprocess.PIPE, stderr=subprocess.STDOUT, text=True)
    open("%s/%s-%s-s%d.log" % (out, ck, tier, seed), "w").write(p.stdout)
    hits = {}
    try:
        ev = json.load(open("%s/%s.json" % (evdir, ck)))
        if ev.get("seed") == seed and ev.get("tier") == tier:
            hits = ev["coverage"].get("known_findings_hit", {})
    except Exception:
        pass
    sigs = sorted(set(re.findall(r"signature: (.*)", p.stdout)))
    return dict(check=ck, seed=seed, rc=p.returncode, wall=round(time.time() - t), known=hits, sigs=sigs)
res = []
with cf.ThreadPoolExecutor(par) as ex:
    futs = [ex.submit(one, ck, s) for s in seeds for ck in checks]
    for f in cf.as_completed(futs):
        r = f.result(); res.append(r)
        print("%s seed=%d rc=%d wall=%ds known=%s %s" % (r["check"], r["seed"], r["rc"], r["wall"], list(r["known"]), r["sigs"][:3]), flush=True)
json.dump(res, open("%s/summary-%s-%d.json" % (out, tier, int(time.time())), "w"), indent=1)
bad = [r for r in res if r["rc"] != 0]
print("DONE %d runs, %d non-zero" % (len(res), len(bad)))
